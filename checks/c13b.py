"""C13 part (b) — generic code behaves like its textual specialisation (program level).

For each generic template (type parameters, nat const parameters, non-nat const
parameters, @comptime arguments, generic structs, generic-calls-generic, interleaved
orders) and each instantiation, two programs are compiled by the real compiler:
  G: the generic definition, called from main at the instantiation;
  S: a copy with the inferred arguments substituted textually (no generics left).
Both must be accepted, validate (hugr-core) and give identical hugrvm results on an input
grid.  Templates whose generic function can be compiled on its own are additionally
compiled STANDALONE (parameters stay generic in the HUGR) and called by hugrvm with HUGR
type arguments - this exercises partial monomorphisation and variable index shifting.
"""
from __future__ import annotations

import itertools
import re
import struct

from hugr import tys as ht

from vlib import gload, hugrvm

PRE = '''
from typing import Generic
from guppylang.std.lang import Copy, Drop

B = guppy.const_var("B", "bool")

@guppy.struct
class Flag(Generic[B]):
    """unit struct that carries the const parameter B"""

@guppy.struct
class Box[T]:
    v: T

@guppy.struct
class Two[S, T]:
    a: S
    b: T
'''

TY = {"int": ("7", "-3"), "float": ("2.5", "-0.5"), "bool": ("True", "False")}


def lit(t, i=0):
    return TY[t][i]


def cases(tier):
    """yield (name, generic_defs, special_defs, main_body_generic, main_body_special, main_sig, inputs)"""
    out = []
    tys = ["int", "float", "bool"]
    ns = [0, 1, 3] if tier == "quick" else [0, 1, 2, 3, 5]
    # --- T1 two type params, swapped outputs
    for s, t in itertools.product(tys, tys):
        g = "@guppy\ndef pair[S, T](x: S @owned, y: T @owned) -> tuple[T, S]:\n    return y, x\n"
        sp = f"@guppy\ndef pair(x: {s}, y: {t}) -> tuple[{t}, {s}]:\n    return y, x\n"
        body = [f"p, q = pair(a, b)", 'result("p", p)', 'result("q", q)']
        out.append((f"two-type-params[{s},{t}]", g, sp, body, body, f"a: {s}, b: {t}", [(s, t)]))
    # --- T2 copy bound
    for t in tys:
        g = "@guppy\ndef dup[T: Copy](x: T) -> tuple[T, T]:\n    return x, x\n"
        sp = f"@guppy\ndef dup(x: {t}) -> tuple[{t}, {t}]:\n    return x, x\n"
        body = ["p, q = dup(a)", 'result("p", p)', 'result("q", q)']
        out.append((f"copy-bound[{t}]", g, sp, body, body, f"a: {t}", [(t,)]))
    # --- T3 nat const used as a value and as a loop bound
    for n in ns:
        g = ("@guppy\ndef total[n: nat](xs: array[int, n]) -> int:\n    s = 0\n    for i in range(n):\n        s += xs[i] * (i + 1)\n"
             "    return s * 100 + n\n")
        sp = (f"@guppy\ndef total(xs: array[int, {n}]) -> int:\n    s = 0\n    for i in range({n}):\n        s += xs[i] * (i + 1)\n"
              f"    return s * 100 + {n}\n")
        elems = ", ".join(f"a + {k}" for k in range(n))
        body = [f"xs: array[int, {n}] = array({elems})", 'result("t", total(xs))']
        out.append((f"nat-const[{n}]", g, sp, body, body, "a: int", [("int",)]))
    # --- T4 interleaved type + nat (both orders)
    for t, n, order in itertools.product(["int", "float"], [1, 3], ["T,n", "n,T"]):
        hdr = "[T: Copy, n: nat]" if order == "T,n" else "[n: nat, T: Copy]"
        g = f"@guppy\ndef get{hdr}(xs: array[T, n], i: int) -> T:\n    return xs[i]\n"
        sp = f"@guppy\ndef get(xs: array[{t}, {n}], i: int) -> {t}:\n    return xs[i]\n"
        elems = ", ".join(["a"] + [lit(t, k % 2) for k in range(1, n)])
        body = [f"xs: array[{t}, {n}] = array({elems})", f'result("g", get(xs, {n - 1}))', 'result("g0", get(xs, 0))']
        out.append((f"type+nat[{t},{n},{order}]", g, sp, body, body, f"a: {t}", [(t,)]))
    # --- T5 comptime int argument
    for k in (-2, 0, 5):
        g = "@guppy\ndef scale(x: int, k: int @comptime) -> int:\n    return x * k + k\n"
        sp = f"@guppy\ndef scale(x: int) -> int:\n    return x * {k} + {k}\n".replace("+ -", "+ -")
        out.append((f"comptime-int[{k}]", g, sp, [f'result("s", scale(a, {k}))'], ['result("s", scale(a))'], "a: int", [("int",)]))
    # --- T6 interleaved comptime / runtime nat arguments
    for a1, c1 in ((1, 2), (0, 9), (7, 0)):
        g = "@guppy\ndef mix(a: nat @comptime, b: nat, c: nat @comptime) -> nat:\n    return a * nat(100) + b * nat(10) + c\n"
        sp = f"@guppy\ndef mix(b: nat) -> nat:\n    return nat({a1}) * nat(100) + b * nat(10) + nat({c1})\n"
        out.append((f"comptime-interleaved[{a1},{c1}]", g, sp, [f'result("m", mix({a1}, n, {c1}))'], ['result("m", mix(n))'],
                    "n: nat", [("nat",)]))
    # --- T7 comptime float / bool argument
    for v in ("1.5", "-0.25"):
        g = "@guppy\ndef addc(x: float, c: float @comptime) -> float:\n    return x * c - c\n"
        sp = f"@guppy\ndef addc(x: float) -> float:\n    return x * {v} - {v}\n"
        out.append((f"comptime-float[{v}]", g, sp, [f'result("s", addc(a, {v}))'], ['result("s", addc(a))'], "a: float", [("float",)]))
    # two instantiations in ONE program whose comptime arguments are equal for Python (`0.0 == -0.0`, `1 == True`) but not the same
    g = "@guppy\ndef inv(x: float, c: float @comptime) -> float:\n    return x / c\n"
    sp = "@guppy\ndef inv_p(x: float) -> float:\n    return x / 0.0\n\n@guppy\ndef inv_n(x: float) -> float:\n    return x / comptime(-0.0)\n"
    for order in ("pos-first", "neg-first"):
        calls_g = ['result("p", inv(a, 0.0))', 'result("n", inv(a, comptime(-0.0)))']
        calls_s = ['result("p", inv_p(a))', 'result("n", inv_n(a))']
        if order == "neg-first":
            calls_g.reverse()
            calls_s.reverse()
        out.append((f"comptime-float-signed-zero[{order}]", g, sp, calls_g, calls_s, "a: float", [("float",)]))
    g = ("TV = guppy.type_var(\"TV\", copyable=True, droppable=True)\n\n@guppy\ndef konst(c: TV @comptime) -> TV:\n    return c\n")
    sp = "@guppy\ndef k_int() -> int:\n    return 1\n\n@guppy\ndef k_bool() -> bool:\n    return True\n\n@guppy\ndef k_float() -> float:\n    return 1.0\n"
    out.append(("comptime-equal-values-of-different-types[1,True,1.0]", g, sp,
                ['result("i", konst(1))', 'result("b", konst(True))', 'result("f", konst(1.0))'],
                ['result("i", k_int())', 'result("b", k_bool())', 'result("f", k_float())'], "a: int", [("int",)]))
    for v in ("True", "False"):
        g = "@guppy\ndef sel(x: int, y: int, c: bool @comptime) -> int:\n    if c:\n        return x\n    return y\n"
        sp = f"@guppy\ndef sel(x: int, y: int) -> int:\n    if {v}:\n        return x\n    return y\n"
        out.append((f"comptime-bool[{v}]", g, sp, [f'result("s", sel(a, 99, {v}))'], ['result("s", sel(a, 99))'], "a: int", [("int",)]))
    # --- T8 generic struct
    for t in tys:
        g = "@guppy\ndef unbox[T](b: Box[T] @owned) -> T:\n    return b.v\n"
        sp = f"@guppy\ndef unbox(b: Box[{t}]) -> {t}:\n    return b.v\n"
        body = ['result("u", unbox(Box(a)))']
        out.append((f"generic-struct[{t}]", g, sp, body, body, f"a: {t}", [(t,)]))
    for s, t in itertools.product(["int", "float"], ["bool", "int"]):
        g = "@guppy\ndef flip[S, T](p: Two[S, T] @owned) -> Two[T, S]:\n    return Two(p.b, p.a)\n"
        sp = f"@guppy\ndef flip(p: Two[{s}, {t}]) -> Two[{t}, {s}]:\n    return Two(p.b, p.a)\n"
        body = ["r = flip(Two(a, b))", 'result("ra", r.a)', 'result("rb", r.b)']
        out.append((f"generic-struct-2[{s},{t}]", g, sp, body, body, f"a: {s}, b: {t}", [(s, t)]))
    # --- T9 non-nat const (monomorphised) + type parameter kept generic, both parameter orders
    for bval, t, order in itertools.product(("True", "False"), ["int", "float"], ["flag-first", "flag-last"]):
        if order == "flag-first":
            sig_g, call = "(f: Flag[B], x: T, y: T)", f"choose[{bval}]" if False else "choose"
            args_g = f"Flag[{bval}](), a, {lit(t, 1)}"
        else:
            sig_g = "(x: T, y: T, f: Flag[B])"
            args_g = f"a, {lit(t, 1)}, Flag[{bval}]()"
        g = ("T = guppy.type_var(\"T\", copyable=True, droppable=True)\n\n"
             f"@guppy\ndef choose{sig_g} -> T:\n    if B:\n        return x\n    return y\n")
        sp = f"@guppy\ndef choose(x: {t}, y: {t}) -> {t}:\n    if {bval}:\n        return x\n    return y\n"
        out.append((f"bool-const+type[{bval},{t},{order}]", g, sp, [f'result("c", choose({args_g}))'],
                    [f'result("c", choose(a, {lit(t, 1)}))'], f"a: {t}", [(t,)]))
    # --- T11 every order of monomorphised (float const) and kept-generic (nat const) parameters, every
    #         returned parameter, every combination of EQUAL / different arguments
    maxk = 3 if tier == "quick" else 4
    for k in range(2, maxk + 1):
        for kinds in itertools.product("fn", repeat=k):
            if "n" not in kinds:
                continue
            names = [("a%d" % i if kd == "f" else "n%d" % i) for i, kd in enumerate(kinds)]
            hdr = ", ".join(f"{nm}: {'float' if kd == 'f' else 'nat'}" for nm, kd in zip(names, kinds))
            for ret_i, (nm, kd) in enumerate(zip(names, kinds)):
                rty = "float" if kd == "f" else "nat"
                g = f"@guppy\ndef pick[{hdr}]() -> {rty}:\n    return {nm}\n"
                fdoms = [(1.5, 2.5)] * kinds.count("f")
                ndoms = [(3, 5)] * kinds.count("n")
                body_g, sp_defs, body_s = [], [], []
                for ci, (fv, nv) in enumerate(itertools.product(itertools.product(*fdoms), itertools.product(*ndoms))):
                    fv, nv = list(fv), list(nv)
                    vals = [(fv.pop(0) if kd2 == "f" else nv.pop(0)) for kd2 in kinds]
                    args = ", ".join(repr(v) for v in vals)
                    lit_ret = repr(vals[ret_i]) if kd == "f" else f"nat({vals[ret_i]})"
                    body_g.append(f'result("c{ci}", pick[{args}]())')
                    sp_defs.append(f"@guppy\ndef pick{ci}() -> {rty}:\n    return {lit_ret}\n")
                    body_s.append(f'result("c{ci}", pick{ci}())')
                out.append((f"const-param-orders[{''.join(kinds)},ret{ret_i}]", g, "\n".join(sp_defs), body_g, body_s, "z: int", [("int",)]))
    # --- T12 comptime argument of a generic type next to kept-generic type parameters, all positions,
    #         equal and different instantiations
    tv = "S = guppy.type_var(\"S\", copyable=True, droppable=True)\nT2 = guppy.type_var(\"T2\", copyable=True, droppable=True)\n\n"
    val = {"int": ("3", "4"), "float": ("1.5", "2.5")}
    for order in ("ct-first", "ct-last", "ct-middle"):
        for tt, ss in itertools.product(["int", "float"], repeat=2):
            if order == "ct-first":
                sig, call, spsig, spcall = "(x: T2 @comptime, y: S) -> S", f"pk({val[tt][0]}, {val[ss][1]})", f"(y: {ss}) -> {ss}", f"pk({val[ss][1]})"
                ret = "y"
            elif order == "ct-last":
                sig, call, spsig, spcall = "(y: S, x: T2 @comptime) -> S", f"pk({val[ss][1]}, {val[tt][0]})", f"(y: {ss}) -> {ss}", f"pk({val[ss][1]})"
                ret = "y"
            else:
                sig, call = "(y: S, x: T2 @comptime, w: S) -> S", f"pk({val[ss][1]}, {val[tt][0]}, {val[ss][0]})"
                spsig, spcall = f"(y: {ss}, w: {ss}) -> {ss}", f"pk({val[ss][1]}, {val[ss][0]})"
                ret = "w"
            g = tv + f"@guppy\ndef pk{sig}:\n    return {ret}\n"
            sp = f"@guppy\ndef pk{spsig}:\n    return {ret}\n"
            out.append((f"comptime-generic-arg[{order},{tt},{ss}]", g, sp, [f'result("r", {call})'], [f'result("r", {spcall})'], "z: int", [("int",)]))
    # --- T13 a generic function that loads a CUSTOM function as a value (struct constructor, builtin gate):
    #         the loaded function is compiled under its own monomorphisation; the rest of the body must
    #         continue under the enclosing function's.  Parameter used before / after / on both sides.
    loads = {
        "struct-constructor": (["mk = Box[int]", "bx = mk(x)", "v = bx.v"], ""),
        "const-struct-constructor": (["mk = Flag[True]", "mk()", "v = x"], ""),
        "two-param-struct-constructor": (["mk = Two[int, float]", "tw = mk(x, 2.5)", "v = tw.a"], ""),
        "builtin-gate-as-argument": (["q = qubit()", "app(h, q)", "discard(q)", "v = x"],
                                     "@guppy\ndef app(f: Callable[[qubit], None], q: qubit) -> None:\n    f(q)\n\n"),
    }
    params = {
        "nat-const": ("[n: nat](x: int) -> int", "n", [("3", "foo[3](a)"), ("0", "foo[0](a)")], "int({P})"),
        "float-const": ("[c: float](x: int) -> float", "c", [("1.5", "foo[1.5](a)"), ("-2.25", "foo[-2.25](a)")], "{P}"),
        "bool-const": ("[c: bool](x: int) -> int", "c", [("True", "foo[True](a)"), ("False", "foo[False](a)")], "int({P})"),
        "comptime-int-arg": ("(x: int, k: int @comptime) -> int", "k", [("5", "foo(a, 5)"), ("-2", "foo(a, -2)")], "{P}"),
        "comptime-float-arg": ("(x: int, k: float @comptime) -> float", "k", [("0.5", "foo(a, 0.5)")], "{P}"),
    }
    for (ln, (llines, lhdr)), (pn, (sig, pname, insts, use)) in itertools.product(loads.items(), params.items()):
        for where in ("after", "before", "both"):
            rty = sig.rsplit("-> ", 1)[1]
            conv = "float(v)" if rty == "float" else "v"
            u = use.replace("{P}", pname)
            lines = (["r0 = " + u] if where in ("before", "both") else []) + llines
            if where == "before":
                ret = f"return {conv} + r0"
            elif where == "after":
                ret = f"return {conv} + {u}"
            else:
                ret = f"return {conv} + r0 * 2 + {u}"
            for val, call in insts:
                g = lhdr + "from collections.abc import Callable\n\n@guppy\ndef foo" + sig + ":\n" + "".join(f"    {l}\n" for l in lines) + f"    {ret}\n"
                ssig = sig[sig.index("("):].replace(", k: int @comptime", "").replace(", k: float @comptime", "")
                lit_v = f"nat({val})" if pn == "nat-const" else val
                sub = lambda t: re.sub(rf"\b{pname}\b", f"({lit_v})", t)   # noqa: E731
                sp = lhdr + "from collections.abc import Callable\n\n@guppy\ndef foo" + ssig + ":\n" + "".join(f"    {sub(l)}\n" for l in lines) + f"    {sub(ret)}\n"
                out.append((f"load-custom-value[{ln},{pn},{where},{val}]", g, sp, [f'result("r", {call})'], ['result("r", foo(a))'], "a: int", [("int",)]))
    # --- T14 DEPENDENT const parameters forwarded through two instantiation steps (the type of the const
    #         parameter is itself a parameter), as explicit type application and as @comptime arguments
    dep = {"nat": ("42", "nat(42)"), "float": ("4.5", "4.5"), "bool": ("True", "True"), "int": ("7", "7")}
    for t, (val, lit_v) in dep.items():
        g = ("@guppy\ndef inner[V: (Copy, Drop), y: V]() -> V:\n    return y\n\n"
             "@guppy\ndef outer[T: (Copy, Drop), xv: T]() -> T:\n    return inner[T, xv]()\n")
        sp = f"@guppy\ndef inner() -> {t}:\n    return {lit_v}\n\n@guppy\ndef outer() -> {t}:\n    return inner()\n"
        if t != "int":       # an integer literal in a type application is a nat argument
          out.append((f"dependent-const-forwarded[{t}]", g, sp, [f'result("r", outer[{t}, {val}]())'], ['result("r", outer())'], "z: int", [("int",)]))
        g = ("V = guppy.type_var(\"V\", copyable=True, droppable=True)\nT3 = guppy.type_var(\"T3\", copyable=True, droppable=True)\n\n"
             "@guppy\ndef inner(y: V @comptime) -> V:\n    return y\n\n@guppy\ndef outer(xv: T3 @comptime, w: int) -> T3:\n    return inner(xv)\n")
        sp = f"@guppy\ndef inner() -> {t}:\n    return {lit_v}\n\n@guppy\ndef outer(w: int) -> {t}:\n    return inner()\n"
        if t != "nat":       # a nat value cannot be written as a comptime literal (42 is an int, nat(42) is a call)
          out.append((f"dependent-comptime-forwarded[{t}]", g, sp, [f'result("r", outer({lit_v}, z))'], ['result("r", outer(z))'], "z: int", [("int",)]))
    # --- T15 instantiation TYPE x the way the instantiated type reaches a function type: None (a unit row), tuples (several
    #         wires unless the row is preserved), non-copyable arrays and structs; as a bare result, through a monomorphised
    #         sibling parameter, through a Callable parameter, through an explicit type application inside another generic
    #         function, captured by a closure; with both-sided and one-sided (Copy only / Drop only) bounds
    XS = {"none": ("None", "None", [], True), "int": ("a", "int", ['result("r", r)'], True),
          "tuple": ("(a, 2)", "tuple[int, int]", ['result("r0", r[0])', 'result("r1", r[1])'], True),
          "tuple1": ("(a,)", "tuple[int]", ['result("r0", r[0])'], True),
          "array": ("array(a, 2)", "array[int, 2]", ['result("r0", r[0])', 'result("r1", r[1])'], False),
          "box": ("Box(a)", "Box[int]", ['result("rv", r.v)'], True),
          "boxarr": ("Box(array(a, 2))", "Box[array[int, 2]]", ['result("rv", r.v[1])'], False)}
    CAL = "from collections.abc import Callable\n\n"
    for xn, (xlit, xty, obs, copyable) in XS.items():
        own = "" if copyable else " @owned"
        done = ['result("done", 1)']
        shapes = {
            "bare-result": ("@guppy\ndef ident[T](x: T @owned) -> T:\n    return x\n",
                            f"@guppy\ndef ident(x: {xty}{own}) -> {xty}:\n    return x\n", f"ident({xlit})", f"ident({xlit})"),
            "beside-comptime-parameter": ("@guppy\ndef pick[T](x: T @owned, c: bool @comptime) -> T:\n    return x\n",
                                          f"@guppy\ndef pick(x: {xty}{own}) -> {xty}:\n    return x\n", f"pick({xlit}, True)", f"pick({xlit})"),
            "callable-parameter": (CAL + (f"@guppy\ndef apply[T: (Copy, Drop)](f: Callable[[T], T], x: T) -> T:\n    return f(x)\n\n" if copyable else
                                          f"@guppy\ndef apply[T](f: Callable[[T @owned], T], x: T @owned) -> T:\n    return f(x)\n\n") +
                                   f"@guppy\ndef gfun(x: {xty}{own}) -> {xty}:\n    return x\n",
                                   CAL + f"@guppy\ndef apply(f: Callable[[{xty}{own}], {xty}], x: {xty}{own}) -> {xty}:\n    return f(x)\n\n"
                                   f"@guppy\ndef gfun(x: {xty}{own}) -> {xty}:\n    return x\n", f"apply(gfun, {xlit})", f"apply(gfun, {xlit})"),
            "callable-result": (CAL + f"@guppy\ndef make[T](f: Callable[[], T]) -> T:\n    return f()\n\n"
                                f"@guppy\ndef mk() -> {xty}:\n    a = 5\n    return {xlit}\n",
                                CAL + f"@guppy\ndef make(f: Callable[[], {xty}]) -> {xty}:\n    return f()\n\n"
                                f"@guppy\ndef mk() -> {xty}:\n    a = 5\n    return {xlit}\n", "make(mk)", "make(mk)"),
            "explicit-application-inside-generic": (
                "@guppy\ndef ident[S](x: S @owned) -> S:\n    return x\n\n@guppy\ndef wrap[T](x: T @owned) -> T:\n    return ident[T](x)\n",
                f"@guppy\ndef ident(x: {xty}{own}) -> {xty}:\n    return x\n\n@guppy\ndef wrap(x: {xty}{own}) -> {xty}:\n    return ident(x)\n",
                f"wrap({xlit})", f"wrap({xlit})"),
        }
        if copyable:
            shapes["captured-by-closure"] = (
                "@guppy\ndef outer[T: (Copy, Drop)](x: T, k: int) -> T:\n    def inner(j: int) -> int:\n        y = x\n        return j + 1\n"
                "    result(\"i\", inner(k))\n    return x\n",
                f"@guppy\ndef outer(x: {xty}, k: int) -> {xty}:\n    def inner(j: int) -> int:\n        y = x\n        return j + 1\n"
                "    result(\"i\", inner(k))\n    return x\n",
                f"outer({xlit}, 3)", f"outer({xlit}, 3)")
            shapes["copy-only-bound-callable"] = (
                CAL + f"@guppy\ndef twice[T: Copy](f: Callable[[T], T], x: T) -> tuple[T, T]:\n    y = f(x)\n    return y, y\n\n"
                f"@guppy\ndef gfun(x: {xty}) -> {xty}:\n    return x\n",
                CAL + f"@guppy\ndef twice(f: Callable[[{xty}], {xty}], x: {xty}) -> tuple[{xty}, {xty}]:\n    y = f(x)\n    return y, y\n\n"
                f"@guppy\ndef gfun(x: {xty}) -> {xty}:\n    return x\n", f"twice(gfun, {xlit})[1]", f"twice(gfun, {xlit})[1]")
            shapes["copy-only-bound-explicit-application"] = (
                "@guppy\ndef ident[S: Copy](x: S) -> S:\n    return x\n\n@guppy\ndef wrap[T: Copy](x: T) -> tuple[T, T]:\n    y = ident[T](x)\n    return y, y\n",
                f"@guppy\ndef ident(x: {xty}) -> {xty}:\n    return x\n\n@guppy\ndef wrap(x: {xty}) -> tuple[{xty}, {xty}]:\n    y = ident(x)\n    return y, y\n",
                f"wrap({xlit})[0]", f"wrap({xlit})[0]")
        shapes["drop-only-bound-callable"] = (
            CAL + f"@guppy\ndef once[T: Drop](f: Callable[[], T]) -> int:\n    y = f()\n    return 1\n\n@guppy\ndef mk() -> {xty}:\n    a = 5\n    return {xlit}\n",
            CAL + f"@guppy\ndef once(f: Callable[[], {xty}]) -> int:\n    y = f()\n    return 1\n\n@guppy\ndef mk() -> {xty}:\n    a = 5\n    return {xlit}\n",
            None, None)
        # must be rejected (a Drop-only variable is not copyable): the textual copy at a non-copyable type is
        shapes["drop-only-bound-duplicated"] = (
            CAL + f"@guppy\ndef dup[T: Drop](f: Callable[[], T]) -> tuple[T, T]:\n    y = f()\n    return y, y\n\n@guppy\ndef mk() -> {xty}:\n    a = 5\n    return {xlit}\n",
            CAL + f"@guppy\ndef dup(f: Callable[[], {xty}]) -> tuple[{xty}, {xty}]:\n    y = f()\n    return y, y\n\n@guppy\ndef mk() -> {xty}:\n    a = 5\n    return {xlit}\n",
            f"dup(mk)[0]", f"dup(mk)[0]")
        for sn, (g, sp, cg, cs) in shapes.items():
            if cg is None:
                bg = bs = ['result("n", once(mk))'] + done
            else:
                bg, bs = [f"r = {cg}"] + obs + done, [f"r = {cs}"] + obs + done
            out.append((f"instantiation-type:{sn}[{xn}]", g, sp, bg, bs, "a: int", [("int",)]))
    # --- T17 comptime LIST arguments (frozenarray constants): one instance per distinct list, also for lists that are
    #         equal for Python but not the same ([0.0] / [-0.0])
    FZ = "from guppylang.std.builtins import frozenarray\n\n"
    g = FZ + "@guppy\ndef pick[n: nat](xs: frozenarray[int, n] @comptime, k: nat @comptime) -> int:\n    return xs[0] * 100 + xs[2] + int(k)\n"
    sp = ("@guppy\ndef pick_a() -> int:\n    return 1 * 100 + 3 + 7\n\n@guppy\ndef pick_b() -> int:\n    return 4 * 100 + 6 + 7\n")
    for order in (("a",), ("a", "b", "a"), ("b", "a")):
        cg = {"a": 'result("a", pick(comptime([1, 2, 3]), 7))', "b": 'result("b", pick(comptime([4, 5, 6]), 7))'}
        cs = {"a": 'result("a", pick_a())', "b": 'result("b", pick_b())'}
        out.append((f"comptime-list-argument[{'+'.join(order)}]", g, sp, [cg[k] for k in order], [cs[k] for k in order], "z: int", [("int",)]))
    g = FZ + "@guppy\ndef invf[n: nat](xs: frozenarray[float, n] @comptime, x: float) -> float:\n    return x / xs[0]\n"
    sp = "@guppy\ndef inv_p(x: float) -> float:\n    return x / 0.0\n\n@guppy\ndef inv_n(x: float) -> float:\n    return x / comptime(-0.0)\n"
    out.append(("comptime-list-argument-signed-zero[]", g, sp, ['result("p", invf(comptime([0.0]), a))', 'result("n", invf(comptime([-0.0]), a))'],
                ['result("p", inv_p(a))', 'result("n", inv_n(a))'], "a: float", [("float",)]))
    # --- T16 a NESTED function inside a function that is monomorphised more than once (non-capturing / capturing,
    #         recursive / not): every instance of the enclosing function needs its own complete nested function
    for cap, rec in itertools.product(("non-capturing", "capturing"), ("recursive", "plain")):
        step = "rec(n - 1) + 1 + y * 0" if cap == "capturing" else "rec(n - 1) + 1"
        if rec == "plain":
            step = "n + y * 0" if cap == "capturing" else "n + 0"
        nested = f"    def rec(n: int) -> int:\n        if n <= 0:\n            return 0\n        return {step}\n"
        g = "@guppy\ndef outer(b: bool @comptime, y: int) -> int:\n" + nested + "    if b:\n        return outer(False, y) + 100\n    return rec(y)\n"
        sp = ("@guppy\ndef outer_f(y: int) -> int:\n" + nested + "    return rec(y)\n\n"
              "@guppy\ndef outer_t(y: int) -> int:\n" + nested + "    if True:\n        return outer_f(y) + 100\n    return rec(y)\n")
        cg = {"t": 'result("r", outer(True, 3))', "f": 'result("s", outer(False, 2))'}
        cs = {"t": 'result("r", outer_t(3))', "f": 'result("s", outer_f(2))'}
        for order in (("t",), ("t", "f"), ("f", "t")):       # which instances main asks for, in which order
            out.append((f"nested-function-in-twice-monomorphised[{cap},{rec},{'+'.join(order)}]", g, sp, [cg[k] for k in order],
                        [cs[k] for k in order], "a: int", [("int",)]))
    # --- T10 generic calls generic with different parameter order
    for t, n in itertools.product(["int", "float"], [1, 3]):
        g = ("@guppy\ndef inner[n: nat, T: Copy](xs: array[T, n], i: int) -> T:\n    return xs[i]\n\n"
             "@guppy\ndef outer[T: Copy, n: nat](xs: array[T, n]) -> tuple[T, int]:\n    return inner(xs, n - 1), n\n")
        sp = (f"@guppy\ndef inner(xs: array[{t}, {n}], i: int) -> {t}:\n    return xs[i]\n\n"
              f"@guppy\ndef outer(xs: array[{t}, {n}]) -> tuple[{t}, int]:\n    return inner(xs, {n} - 1), {n}\n")
        elems = ", ".join([lit(t, k % 2) for k in range(n - 1)] + ["a"])
        body = [f"xs: array[{t}, {n}] = array({elems})", "v, k = outer(xs)", 'result("v", v)', 'result("k", k)']
        out.append((f"generic-calls-generic[{t},{n}]", g, sp, body, body, f"a: {t}", [(t,)]))
    return out


GRID = {"int": [0, 1, -3, 1 << 40], "float": [0.0, 1.5, -2.25], "bool": [False, True], "nat": [0, 3, 1 << 40]}


def program(defs, body, sig):
    return PRE + "\n" + defs + f"\n@guppy\ndef main({sig}) -> None:\n" + "\n".join("    " + l for l in body) + "\n"


def _canon(ev):
    out = []
    for e in ev:
        if e[0] == "result":
            v = e[2]
            if isinstance(v, float):
                v = ("f", struct.unpack("<Q", struct.pack("<d", v))[0])
            out.append((e[1], v))
        elif e[0] == "panic":
            out.append(("panic",))
    return out


def eval_case(case):
    name, g, sp, body_g, body_s, sig, types = case
    res = {"bad": None, "runs": 0, "cls": ""}
    hs = []
    # the textual copy first: if IT is rejected the template says nothing about generics
    for label, src in (("specialised", program(sp, body_s, sig)), ("generic", program(g, body_g, sig))):
        o, mod = gload.run_src(src)
        if label == "specialised" and "drop-only-bound-duplicated" in name:
            continue
        if o.kind == "crash":
            return {"bad": f"{label} version crashes the compiler: {o.exc}", "cls": "compiler-crash", "runs": 0}
        if "drop-only-bound-duplicated" in name:
            # the generic function copies a value of a type variable that is only known to be droppable: it must be rejected,
            # whatever it is instantiated with (its textual copy at a copyable type is fine, at a non-copyable one rejected)
            if o.ok:
                return {"bad": "generic function that returns a value of its Drop-only type variable twice was accepted", "cls": "generic-accepted", "runs": 0}
            return {"bad": None, "runs": 1, "cls": ""}
        if not o.ok:
            if label == "specialised":
                return {"bad": None, "runs": 0, "cls": "skipped", "why": f"specialised copy rejected: {o.title}"}
            return {"bad": f"generic version rejected ({o.title}) {o.rendered[-300:]}", "cls": "generic-rejected", "runs": 0}
        v = gload.validate(o.package)
        if v:
            return {"bad": f"{label} version gives invalid HUGR: {v[:300]}", "cls": "invalid-hugr", "runs": 0}
        hs.append(o.package.modules[0])
    doms = [GRID[t] for t in types[0]]
    hs.reverse()            # [generic, specialised]
    for vals in itertools.product(*doms):
        outs = []
        for h in hs:
            r = hugrvm.run(h, "main", [hugrvm.to_vm(v) for v in vals], step_budget=300000)
            if r.status in ("unsupported", "invariant", "budget"):
                raise RuntimeError(f"hugrvm: {r.status} {r.detail} in {name}")
            outs.append((r.status, _canon(r.events)))
        res["runs"] += 1
        if outs[0] != outs[1]:
            res["bad"] = f"inputs {vals}: generic {outs[0]} vs textual specialisation {outs[1]}"
            res["cls"] = "generic-differs-from-specialisation"
            return res
    return res


# ---- standalone generic functions called with HUGR type arguments
STANDALONE = [
    # (name, source, fn, hugr type args builder(n), args builder(n), expected python fn(n, xs))
    ("total", "@guppy\ndef total[n: nat](xs: array[int, n]) -> int:\n    s = 0\n    for i in range(n):\n        s += xs[i] * (i + 1)\n    return s * 100 + n\n",
     lambda n, xs: sum(x * (i + 1) for i, x in enumerate(xs)) * 100 + n),
    ("size2", "@guppy\ndef size2[T, n: nat](xs: array[T, n] @owned) -> tuple[int, array[T, n]]:\n    return n * 2, xs\n",
     lambda n, xs: n * 2),
    ("size3", "@guppy\ndef size3[m: nat, T, n: nat](xs: array[T, n] @owned, ys: array[int, m]) -> tuple[int, array[T, n]]:\n"
              "    return n * 10 + m, xs\n", None),
]


def eval_standalone(item):
    name, n = item
    ent = next(e for e in STANDALONE if e[0] == name)
    o, mod = gload.run_src(PRE + "\n" + ent[1], fn=name)
    if o.kind == "crash":
        return {"bad": f"standalone generic `{name}` crashes the compiler: {o.exc}", "cls": "compiler-crash"}
    if not o.ok:
        return {"bad": None, "cls": "skipped", "why": o.title}
    v = gload.validate(o.package)
    if v:
        return {"bad": f"standalone generic `{name}` gives invalid HUGR: {v[:300]}", "cls": "invalid-hugr"}
    h = o.package.modules[0]
    xs = [5 + k for k in range(n)]
    if name == "total":
        targs, args, want = [ht.BoundedNatArg(n)], [hugrvm.to_vm(list(xs))], ent[2](n, xs)
    elif name == "size2":
        targs, args, want = [ht.TypeTypeArg(ht.Bool), ht.BoundedNatArg(n)], [hugrvm.to_vm(list(xs))], n * 2
    else:
        m = 2
        targs = [ht.BoundedNatArg(m), ht.TypeTypeArg(ht.Bool), ht.BoundedNatArg(n)]
        args, want = [hugrvm.to_vm(list(xs)), hugrvm.to_vm([1, 2])], n * 10 + m
    r = hugrvm.run(h, name, args, targs=targs)
    if r.status in ("unsupported", "invariant", "budget"):
        raise RuntimeError(f"hugrvm: {r.status} {r.detail} in standalone {name}")
    got = hugrvm.s64(r.values[0]) if r.status == "ok" else r.status
    if got != want:
        return {"bad": f"`{name}` with HUGR type args n={n}: got {got}, expected {want}", "cls": "generic-hugr-wrong-parameter"}
    return {"bad": None, "cls": "ok"}


def part_b(ctx):
    cs = cases(ctx.tier)
    res = ctx.pmap(eval_case, cs, chunk=4)
    ok = runs = skipped = 0
    samples = []
    for c, r in zip(cs, res):
        if r["cls"] == "skipped":
            skipped += 1
            continue
        if r["bad"]:
            fam = c[0].split("[")[0]
            if fam.startswith("instantiation-type:"):
                fam += ":" + c[0].split("[")[1].rstrip("]")      # the instantiated type is part of the defect class here
            ctx.violation(f"b:{r['cls']}:{fam}", f"{c[0]}: {r['bad']}", {"part": "b", "case": c[0]})
        else:
            ok += 1
            runs += r["runs"]
            if len(samples) < 4 and ok % 17 == 3:
                samples.append({"case": c[0], "generic": c[1], "inputs": r["runs"]})
    st_items = [(e[0], n) for e in STANDALONE for n in (0, 1, 3, 4)]
    sres = ctx.pmap(eval_standalone, st_items, chunk=2)
    st_ok = 0
    for it, r in zip(st_items, sres):
        if r["bad"]:
            ctx.violation(f"b:{r['cls']}:standalone-{it[0]}", f"{it}: {r['bad']}", {"part": "b", "standalone": list(it)})
        elif r["cls"] == "ok":
            st_ok += 1
    return {
        "evaluations": runs + len(st_items), "distinct_nontrivial": ok + st_ok,
        "b_programs": len(cs), "b_generic_equals_specialisation": ok, "b_skipped": skipped, "b_executions": runs,
        "b_standalone_generic_hugr_calls": st_ok, "b_samples": samples, "b_exhaustive": True,
    }


def replay_b(ctx, item):
    if "standalone" in item:
        r = eval_standalone(tuple(item["standalone"]))
        return {"violation": bool(r["bad"]), "result": r}
    c = next(c for c in cases("thorough") if c[0] == item["case"])
    r = eval_case(c)
    return {"violation": bool(r["bad"]), "result": r}
