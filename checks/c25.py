"""C25 — Modifier blocks lower to the matching modifier operations.

Bounded-exhaustive enumeration (no sampling) of

  modifier stacks   all sequences (repetition allowed) over
                    {dagger, control(c), control(ca, cb), control(cs) with
                     cs: array[qubit, 2], power(2), power(n) with n: nat}
                    of length <= 3 (quick) / <= 4 (thorough); the longest length of a
                    tier only with the bodies h(q) and rz(q, angle(a)); every stack
                    position has its own control qubits
  layout            one `with a, b, c:` item list and fully nested `with` blocks
                    (thorough, length <= 3: every split of the stack into nested groups)
  bodies            h(q) | cx(q, r) | rz(q, angle(a)) with a captured float |
                    h(qs[0]) on a captured array element
  Every scalar qubit gets a follow-up gate `x(.)` after the outermost block.

Each program is compiled with compile_function and the in-memory hugr.Hugr is inspected:

  (1) the package validates (real hugr-core validator);
  (2) for every `with` level there is one generated `__WithBlock__` function; the
      innermost one contains exactly the body's gates (tket.quantum ops) and no modifier
      operation / indirect call; outer ones contain nothing but the next level's call;
  (3) the call site is a chain LoadFunc -> tket.modifier ops -> CallIndirect.  The
      sequence of modifier ops, with the control arity (type argument) of every
      ControlModifier and the traced source of every PowerModifier exponent wire
      (constant 2 / function parameter n, followed through captures of enclosing
      blocks), is compared with the source modifiers of that `with` statement.
      Oracle = the literal statement: one op per modifier in source order (outermost
      first or innermost first: both directions are accepted and counted).  The
      implementation's normal form "Dagger iff odd number of daggers, then powers, then
      controls" is recognised and reported under the two fixed keys
          modifier-count:dagger-pairs-cancelled     modifier-order:grouped-by-kind
      every other deviation gets its own specific key;
  (4) every inout value (captured qubits/arrays, control qubits) is traced backwards
      from the enclosing function's Output through the follow-up gate, the unpacking of
      the control arrays and the CallIndirect to the Input it started from; control
      qubits must enter the CallIndirect on a control-array port (all qubits of one
      modifier on the same port, in source order), captured values on a later port;
      the size of every supplied control array must be the size the modifier chain
      demands at that port.

Programs the checker rejects: only `h(qs[0])` under an odd number of daggers is expected
to be rejected (C24's subscript rule) — counted as skipped.  Any other rejection or any
crash is reported.
"""
from __future__ import annotations

import itertools

ID = "C25"
LEVEL = "exploration"

ALPHABET = ("D", "C1", "C2", "CA", "P2", "PN")
BODIES = ("B1", "B2", "B3", "B4")
BODY_SRC = {"B1": "h(q)", "B2": "cx(q, r)", "B3": "rz(q, angle(a))", "B4": "h(qs[0])"}
BODY_GATES = {"B1": ["H"], "B2": ["CX"], "B3": ["Rz"], "B4": ["H"]}
BODY_QUBITS = {"B1": ["q"], "B2": ["q", "r"], "B3": ["q"], "B4": ["qs"]}

HEADER = (
    "from guppylang import guppy, qubit, array\n"
    "from guppylang.std.builtins import nat\n"
    "from guppylang.std.quantum import h, x, cx, rz\n"
    "from guppylang.std.angles import angle\n"
)


class Unsupported(Exception):
    """The HUGR has a shape the tracer does not understand (harness limitation)."""


# --------------------------------------------------------------------------- generator
def compositions(k):
    """All ways to split k stacked modifiers into consecutive nested groups."""
    out = []
    for cuts in itertools.product((0, 1), repeat=k - 1):
        comp, cur = [], 1
        for c in cuts:
            if c:
                comp.append(cur)
                cur = 1
            else:
                cur += 1
        comp.append(cur)
        out.append(comp)
    return out


def all_items(quick):
    items = []
    maxlen = 3 if quick else 4
    for k in range(1, maxlen + 1):
        if quick or k == 4:
            comps = [[k]] if k == 1 else [[k], [1] * k]
        else:
            comps = compositions(k)
        for stack in itertools.product(ALPHABET, repeat=k):
            for comp in comps:
                for body in BODIES:
                    if k == (3 if quick else 4) and body not in ("B1", "B3"):
                        continue
                    items.append({"stack": list(stack), "comp": comp, "body": body})
    return items


def mod_info(sym, i):
    """(source text, control qubit names, array?, descriptor)"""
    if sym == "D":
        return "dagger", [], False, ("Dagger",)
    if sym == "C1":
        return f"control(c{i})", [f"c{i}"], False, ("Control", 1)
    if sym == "C2":
        return f"control(c{i}a, c{i}b)", [f"c{i}a", f"c{i}b"], False, ("Control", 2)
    if sym == "CA":
        return f"control(cs{i})", [f"cs{i}"], True, ("Control", 2)
    if sym == "P2":
        return "power(2)", [], False, ("Power", ("const", 2))
    assert sym == "PN"
    return "power(n)", [], False, ("Power", ("param", "n"))


def build(item):
    """item -> (source, facts).  facts: params (name, kind), groups (per `with`
    statement: list of modifier dicts), body info."""
    stack, comp, body = item["stack"], item["comp"], item["body"]
    mods = []
    for i, sym in enumerate(stack):
        text, ctrls, is_arr, desc = mod_info(sym, i)
        mods.append({"sym": sym, "text": text, "ctrls": ctrls, "array": is_arr, "desc": desc})
    groups, pos = [], 0
    for g in comp:
        groups.append(mods[pos:pos + g])
        pos += g
    # parameters: non-copyable first (so that output j of main corresponds to input j)
    params = []
    for nm in BODY_QUBITS[body]:
        params.append((nm, "array" if nm == "qs" else "qubit"))
    if body == "B2":
        pass
    for m in mods:
        for c in m["ctrls"]:
            params.append((c, "array" if m["array"] else "qubit"))
    if body == "B3":
        params.append(("a", "float"))
    if "PN" in stack:
        params.append(("n", "nat"))
    ty = {"qubit": "qubit", "array": "array[qubit, 2]", "float": "float", "nat": "nat"}
    sig = ", ".join(f"{n}: {ty[k]}" for n, k in params)
    lines = ["@guppy", f"def main({sig}) -> None:"]
    ind = 4
    for g in groups:
        lines.append(" " * ind + "with " + ", ".join(m["text"] for m in g) + ":")
        ind += 4
    lines.append(" " * ind + BODY_SRC[body])
    followups = [n for n, k in params if k == "qubit"]
    for n in followups:
        lines.append(f"    x({n})")
    src = HEADER + "\n".join(lines) + "\n"
    # subscript under an odd number of daggers in any enclosing `with` statement
    dagger_ctx = any(sum(1 for m in g if m["sym"] == "D") % 2 == 1 for g in groups)
    facts = {"params": params, "groups": groups, "followups": followups,
             "expect_reject_subscript_under_dagger": body == "B4" and dagger_ctx}
    return src, facts


# ------------------------------------------------------------------ HUGR inspection
class G:
    """Read-only helper around hugr.Hugr."""

    def __init__(self, h):
        import hugr.ops as ops
        self.h = h
        self.ops = ops
        self.root = next(iter(h))  # module root is node 0
        for n in h:
            if h[n].parent is None:
                self.root = n
                break
        self.funcs = {}
        for n in h.children(self.root):
            op = h[n].op
            if isinstance(op, ops.FuncDefn):
                self.funcs.setdefault(op.f_name, []).append(n)

    def op(self, n):
        return self.h[n].op

    def name(self, n):
        """(extension, op name) for extension ops, else (None, class name)."""
        op = self.op(n)
        ops = self.ops
        if isinstance(op, ops.ExtOp):
            d = op.op_def()
            q = d.qualified_name()
            ext, _, nm = q.rpartition(".")
            return ext, nm
        if isinstance(op, ops.Custom):
            return op.extension, op.op_name
        return None, type(op).__name__

    def src(self, n, inport):
        """The (node, out offset) feeding input port `inport` of n (exactly one)."""
        links = list(self.h.linked_ports(n.inp(inport)))
        if len(links) != 1:
            raise Unsupported(f"input port {inport} of node {n.idx} ({self.name(n)}) has {len(links)} links")
        return links[0].node, links[0].offset

    def children(self, n):
        return list(self.h.children(n))

    def descendants(self, n):
        out, todo = [], [n]
        while todo:
            x = todo.pop()
            for c in self.h.children(x):
                out.append(c)
                todo.append(c)
        out.sort(key=lambda v: v.idx)
        return out

    def io(self, container):
        """(Input node, Output node) of a dataflow container."""
        ops = self.ops
        i = o = None
        for c in self.h.children(container):
            if isinstance(self.op(c), ops.Input):
                i = c
            elif isinstance(self.op(c), ops.Output):
                o = c
        return i, o

    def enclosing_func(self, n):
        ops = self.ops
        while n is not None and not isinstance(self.op(n), ops.FuncDefn):
            n = self.h[n].parent
        return n

    def nat_arg(self, arg):
        n = getattr(arg, "n", None)
        if not isinstance(n, int):
            raise Unsupported(f"type argument {arg!r} is not a bounded nat")
        return n


def trace_back(g, node, port, elem=None):
    """Follow an inout value backwards from out port (node, port) to the Input of the
    enclosing function.  Returns (input port index, elem, path) where path is the list
    of labels of the operations passed (in backward order)."""
    ops = g.ops
    path = []
    for _ in range(200):
        op = g.op(node)
        ext, nm = g.name(node)
        if isinstance(op, ops.Input):
            par = g.h[node].parent
            pop = g.op(par)
            if isinstance(pop, ops.FuncDefn):
                return port, elem, path
            if isinstance(pop, ops.DataflowBlock):
                cfg = g.h[par].parent
                blocks = [c for c in g.children(cfg) if isinstance(g.op(c), ops.DataflowBlock)]
                if blocks[0] != par:
                    raise Unsupported("value enters a non-entry basic block")
                node, port = g.src(cfg, port)
                continue
            raise Unsupported(f"Input of unexpected container {type(pop).__name__}")
        if isinstance(op, ops.CFG):
            blocks = [c for c in g.children(node) if isinstance(g.op(c), ops.DataflowBlock)]
            if len(blocks) != 1:
                raise Unsupported(f"CFG with {len(blocks)} basic blocks")
            _, out = g.io(blocks[0])
            node, port = g.src(out, port + 1)
            continue
        if isinstance(op, ops.CallIndirect):
            path.append(("call", node.idx, port + 1, elem))
            node, port = g.src(node, port + 1)
            continue
        if ext == "tket.quantum":
            path.append(("gate", nm))
            node, port = g.src(node, port)
            continue
        if ext == "collections.borrow_arr":
            if nm == "unpack":
                if elem is not None:
                    raise Unsupported("nested array element")
                elem = port
                node, port = g.src(node, 0)
                continue
            if nm in ("from_array", "to_array"):
                path.append((nm, g.nat_arg(op.args[0])))
                node, port = g.src(node, 0)
                continue
            if nm == "new_array":
                if elem is None:
                    raise Unsupported("whole new_array reaches an output")
                path.append(("new_array", g.nat_arg(op.args[0]), elem))
                node, port = g.src(node, elem)
                elem = None
                continue
        raise Unsupported(f"cannot trace through {ext}.{nm}")
    raise Unsupported("trace did not terminate")


def chain_of(g, call):
    """From a CallIndirect back along input 0: returns (ops in application order
    [nearest LoadFunc first], target FuncDefn node)."""
    ops = g.ops
    chain = []
    node, _ = g.src(call, 0)
    for _ in range(50):
        op = g.op(node)
        ext, nm = g.name(node)
        if isinstance(op, ops.LoadFunc):
            tgt, _ = g.src(node, 0)
            chain.reverse()
            return chain, tgt
        if ext == "tket.modifier":
            chain.append(node)
            node, _ = g.src(node, 0)
            continue
        raise Unsupported(f"function operand of CallIndirect produced by {ext}.{nm}")
    raise Unsupported("modifier chain did not terminate")


def const_value(g, node):
    op = g.op(node)
    v = op.val
    for attr in ("v", "value"):
        if hasattr(v, attr):
            return getattr(v, attr)
    return repr(v)


def exponent_source(g, node, port, callsites, param_names):
    """Trace the exponent wire of a PowerModifier to ('const', value) or
    ('param', name) following captures through enclosing with-block functions."""
    ops = g.ops
    for _ in range(200):
        op = g.op(node)
        ext, nm = g.name(node)
        if isinstance(op, ops.LoadConst):
            c, _ = g.src(node, 0)
            return ("const", const_value(g, c))
        if isinstance(op, ops.Input):
            par = g.h[node].parent
            pop = g.op(par)
            if isinstance(pop, ops.DataflowBlock):
                cfg = g.h[par].parent
                blocks = [c for c in g.children(cfg) if isinstance(g.op(c), ops.DataflowBlock)]
                if blocks[0] != par:
                    raise Unsupported("exponent enters a non-entry basic block")
                node, port = g.src(cfg, port)
                continue
            if isinstance(pop, ops.FuncDefn):
                if pop.f_name == "main":
                    return ("param", param_names[port] if port < len(param_names) else f"#{port}")
                if par not in callsites:
                    return ("input-of-uncalled-function", pop.f_name)
                call, k = callsites[par]
                node, port = g.src(call, k + 1 + port)
                continue
            raise Unsupported(f"Input of unexpected container {type(pop).__name__}")
        if ext is not None and (ext.startswith("arithmetic.conversions") or ext.startswith("arithmetic.int")) \
                and g.h.num_in_ports(node) >= 1 and nm.startswith(("iwiden", "inarrow", "itousize", "ifromusize", "iu_to_s", "is_to_u")):
            node, port = g.src(node, 0)
            continue
        return ("computed-by", f"{ext}.{nm}")
    raise Unsupported("exponent trace did not terminate")


def describe_chain(g, chain, callsites, param_names):
    out = []
    for n in chain:
        ext, nm = g.name(n)
        op = g.op(n)
        if nm == "DaggerModifier":
            out.append(("Dagger",))
        elif nm == "ControlModifier":
            out.append(("Control", g.nat_arg(op.args[0])))
        elif nm == "PowerModifier":
            s, p = g.src(n, 1)
            out.append(("Power", exponent_source(g, s, p, callsites, param_names)))
        else:
            out.append(("?" + nm,))
    return out


def fmt(descs):
    def one(d):
        if d[0] == "Control":
            return f"Control[{d[1]}]"
        if d[0] == "Power":
            return f"Power[{d[1][0]}:{d[1][1]}]"
        return d[0]
    return "[" + ", ".join(one(tuple(d)) for d in descs) + "]"


def dagger_deletions(src):
    """All sequences obtained from src by deleting an even number of Dagger entries."""
    idx = [i for i, d in enumerate(src) if d[0] == "Dagger"]
    out = []
    for r in range(0, len(idx) + 1, 2):
        for rm in itertools.combinations(idx, r):
            out.append([d for i, d in enumerate(src) if i not in rm])
    return out


def compare_chain(observed, source):
    """Literal oracle + classification.  Returns (list of (key, text), direction)."""
    observed = [tuple(d) for d in observed]
    source = [tuple(d) for d in source]
    fwd, rev = source, source[::-1]
    if observed == fwd and observed == rev:
        return [], "both"
    if observed == fwd:
        return [], "outermost-first"
    if observed == rev:
        return [], "innermost-first"
    nd = sum(1 for d in source if d[0] == "Dagger")
    nf = ([("Dagger",)] if nd % 2 else []) + [d for d in source if d[0] == "Power"] \
        + [d for d in source if d[0] == "Control"]
    txt = f"source modifiers {fmt(source)} -> emitted {fmt(observed)}"
    if observed == nf:
        out = []
        if nd >= 2:
            out.append(("modifier-count:dagger-pairs-cancelled", txt))
        if not any(observed == c or observed == c[::-1] for c in dagger_deletions(source)):
            out.append(("modifier-order:grouped-by-kind", txt))
        return out, "normal-form"
    # something else: classify
    out = []
    kinds = ("Dagger", "Power", "Control")
    cnt_o = {k: sum(1 for d in observed if d[0] == k) for k in kinds}
    cnt_n = {k: sum(1 for d in nf if d[0] == k) for k in kinds}
    unknown = [d[0] for d in observed if d[0] not in kinds]
    if unknown:
        out.append((f"modifier-ops:unknown-op:{unknown[0]}", txt))
    for k in kinds:
        if cnt_o[k] < cnt_n[k]:
            out.append((f"modifier-ops:missing:{k}", txt + f" (normal form would be {fmt(nf)})"))
        elif cnt_o[k] > cnt_n[k]:
            out.append((f"modifier-ops:extra:{k}", txt + f" (normal form would be {fmt(nf)})"))
    if not out:
        if sorted(d[1] for d in observed if d[0] == "Control") != sorted(d[1] for d in nf if d[0] == "Control"):
            out.append(("control-arity:differs-from-source", txt))
        if sorted(map(repr, (d[1] for d in observed if d[0] == "Power"))) != \
                sorted(map(repr, (d[1] for d in nf if d[0] == "Power"))):
            out.append(("power-exponent:wire-does-not-come-from-given-expression", txt))
    if not out:
        out.append(("modifier-order:neither-source-order-nor-grouped-normal-form", txt))
    return out, "other"


def quiet_validate(pkg):
    """vlib.gload.validate with fd 2 parked on /dev/null: the Rust validator writes its
    'HUGR valid!' line to stderr."""
    import os
    import sys
    from vlib import gload
    sys.stderr.flush()
    saved = os.dup(2)
    dn = os.open(os.devnull, os.O_WRONLY)
    os.dup2(dn, 2)
    os.close(dn)
    try:
        return gload.validate(pkg)
    finally:
        os.dup2(saved, 2)
        os.close(saved)


def inspect(pkg, facts, item):
    """All structural checks.  Returns (violations [(key, text)], info dict)."""
    from vlib import gload
    viol = []
    info = {"directions": [], "levels": 0}
    g = G(pkg.modules[0])
    ops = g.ops
    params = facts["params"]
    pnames = [n for n, _ in params]
    groups = facts["groups"]
    if len(g.funcs.get("main", [])) != 1:
        return [("structure:no-unique-main", f"{len(g.funcs.get('main', []))} FuncDefn named main")], info
    wb = [n for name, ns in g.funcs.items() if "__WithBlock__" in name for n in ns]
    if len(wb) != len(groups):
        viol.append(("structure:withblock-function-count",
                     f"{len(groups)} `with` statements but {len(wb)} __WithBlock__ functions"))

    size_mismatch = False
    callsites = {}          # with-block FuncDefn node -> (CallIndirect node, number of control ports)
    func = g.funcs["main"][0]
    level = 0
    names = list(pnames)
    kind_of = dict(params)
    while True:
        desc = g.descendants(func)
        gates = [g.name(n)[1] for n in desc if g.name(n)[0] == "tket.quantum"]
        modops = [n for n in desc if g.name(n)[0] == "tket.modifier"]
        calls = [n for n in desc if isinstance(g.op(n), ops.CallIndirect)]
        loads = [n for n in desc if isinstance(g.op(n), ops.LoadFunc)]
        direct = [n for n in desc if isinstance(g.op(n), ops.Call)]
        fname = g.op(func).f_name
        where = "main" if level == 0 else f"with-level-{level}"
        if level == len(groups):
            # innermost function: exactly the block body
            exp = BODY_GATES[item["body"]]
            if gates != exp:
                viol.append(("body:gates-differ", f"{fname} contains gates {gates}, block body has {exp}"))
            if modops or calls or loads or direct:
                viol.append(("body:modifier-or-call-inside-body-function",
                             f"{fname}: {len(modops)} modifier ops, {len(calls)} CallIndirect, "
                             f"{len(loads)} LoadFunc, {len(direct)} Call"))
            break
        exp_gates = ["X"] * len(facts["followups"]) if level == 0 else []
        if gates != exp_gates:
            viol.append((f"structure:gates-outside-body:{'main' if level == 0 else 'outer-with-function'}",
                         f"{fname} contains gates {gates}, expected {exp_gates}"))
        if len(calls) != 1 or len(loads) != 1:
            viol.append(("structure:call-site-count",
                         f"{fname}: {len(calls)} CallIndirect / {len(loads)} LoadFunc for one `with` statement"))
            break
        call = calls[0]
        chain, tgt = chain_of(g, call)
        if set(n.idx for n in chain) != set(n.idx for n in modops):
            viol.append(("structure:stray-modifier-op",
                         f"{fname}: modifier ops {[n.idx for n in modops]} but call chain uses {[n.idx for n in chain]}"))
        top = g.op(tgt)
        if not isinstance(top, ops.FuncDefn) or "__WithBlock__" not in top.f_name:
            viol.append(("structure:chain-target-not-withblock-function", f"LoadFunc target is {top!r}"[:200]))
            break
        group = groups[level]
        n_ctrl_ops = sum(1 for n in chain if g.name(n)[1] == "ControlModifier")
        callsites[tgt] = (call, n_ctrl_ops)
        observed = describe_chain(g, chain, callsites, pnames)
        source = [m["desc"] for m in group]
        v, direction = compare_chain(observed, source)
        viol.extend(v)
        info["directions"].append(direction)
        # total number of control qubits
        tot_src = sum(d[1] for d in source if d[0] == "Control")
        tot_obs = sum(d[1] for d in observed if d[0] == "Control")
        if tot_src != tot_obs and not any(k.startswith(("control-arity", "modifier-ops")) for k, _ in v):
            viol.append(("control-arity:total-differs", f"{tot_obs} control qubits in the ops, {tot_src} in source"))

        # ---- (4) threading of inout values through this level
        inp, outp = g.io(func)
        n_out = g.h.num_in_ports(outp)
        inout_names = [n for n in names if kind_of[n] in ("qubit", "array")]
        if names[:len(inout_names)] != inout_names:
            raise Unsupported(f"{fname}: non-copyable inputs are not in front: {names}")
        used = set(BODY_QUBITS[item["body"]]) | {c for gr in groups[level:] for m in gr for c in m["ctrls"]}
        ctrl_of = {}
        for mi, m in enumerate(group):
            for ei, c in enumerate(m["ctrls"]):
                ctrl_of[c] = (mi, ei, m["array"])
        port_of_mod = {}
        seen_capture_ports = set()
        ctrl_arities_chain = [d[1] for d in observed if d[0] == "Control"]
        if n_out != len(inout_names):
            viol.append(("threading:output-count",
                         f"{where}: function returns {n_out} values for {len(inout_names)} inout values"))
        for j in range(min(n_out, len(inout_names))):
            s_, p_ = g.src(outp, j)
            port, elem, path = trace_back(g, s_, p_)
            nm = inout_names[j]
            if port != j or elem is not None:
                viol.append(("threading:output-not-fed-by-same-input",
                             f"{where}: output {j} ({nm}) traces back to input {port} elem {elem}"))
                continue
            ngates = [x[1] for x in path if x[0] == "gate"]
            ncalls = [x for x in path if x[0] == "call"]
            want_gates = ["X"] if (level == 0 and kind_of[nm] == "qubit") else []
            if ngates != want_gates:
                viol.append(("threading:follow-up-gate-not-on-returned-qubit",
                             f"{where}: {nm} passes gates {ngates} on its way to the output, expected {want_gates}"))
            want_call = nm in used
            if want_call and len(ncalls) != 1:
                viol.append(("threading:value-not-passed-through-modified-call",
                             f"{where}: {nm} passes {len(ncalls)} CallIndirect (it is used inside the `with` block)"))
                continue
            if not want_call:
                if ncalls:
                    viol.append(("threading:unused-value-passed-through-call", f"{where}: {nm}"))
                continue
            _, _, cport, celem = ncalls[0]
            if nm in ctrl_of:
                mi, ei, is_arr = ctrl_of[nm]
                if not (1 <= cport <= n_ctrl_ops):
                    viol.append(("threading:control-qubit-not-on-control-port",
                                 f"{where}: {nm} enters CallIndirect port {cport}, control ports are 1..{n_ctrl_ops}"))
                    continue
                if port_of_mod.setdefault(mi, cport) != cport:
                    viol.append(("threading:controls-of-one-modifier-on-different-ports", f"{where}: {nm}"))
                if (celem if not is_arr else None) != (ei if not is_arr else None) or (is_arr and celem is not None):
                    viol.append(("threading:control-qubit-order",
                                 f"{where}: {nm} is element {celem} of its control array, source position {ei}"))
                # size of the supplied array vs the size demanded by the chain at this port
                sup = [x[1] for x in path if x[0] == "to_array"]
                if not sup:
                    viol.append(("threading:control-not-packed-into-array", f"{where}: {nm}"))
                elif 1 <= cport <= len(ctrl_arities_chain):
                    demanded = ctrl_arities_chain[len(ctrl_arities_chain) - cport]
                    if sup[0] != demanded:
                        size_mismatch = True
                        viol.append(("control-args:array-size-differs-from-modifier-chain-at-port",
                                     f"{where}: {group[mi]['text']} supplies an array of {sup[0]} on CallIndirect port "
                                     f"{cport} where the chain {fmt(observed)} demands {demanded}"))
            else:
                if cport <= n_ctrl_ops:
                    viol.append(("threading:captured-value-on-control-port", f"{where}: {nm} port {cport}"))
                if cport in seen_capture_ports:
                    viol.append(("threading:two-values-on-one-port", f"{where}: {nm} port {cport}"))
                seen_capture_ports.add(cport)
        if len(set(port_of_mod.values())) != len(port_of_mod):
            viol.append(("threading:two-control-modifiers-share-a-port", f"{where}: {port_of_mod}"))
        info["levels"] += 1
        # names of the next function's inputs: follow each call argument back to an input here
        n_in_tgt = len(top.inputs)
        nxt = []
        for i in range(n_in_tgt):
            s_, p_ = g.src(call, n_ctrl_ops + 1 + i)
            port, elem, _path = trace_back(g, s_, p_)
            if elem is not None or port >= len(names):
                raise Unsupported(f"argument {i} of the modified call is not a plain input of {fname}")
            nxt.append(names[port])
        names = nxt
        func = tgt
        level += 1
    # (1) validation
    err = quiet_validate(pkg)
    if err is not None:
        msg = err.split("Stack backtrace")[0].strip().replace("\n", " ")
        if not size_mismatch:
            viol.append(("invalid-hugr:other", msg[-300:]))
        info["invalid"] = True
    elif size_mismatch:
        viol.append(("harness:size-mismatch-but-valid", "tracer saw a control array size mismatch the validator accepts"))
    # de-duplicate keys within one program
    seen, out = set(), []
    for k, t in viol:
        if k not in seen:
            seen.add(k)
            out.append((k, t))
    return out, info


# ----------------------------------------------------------------------------- worker
def evaluate(item):
    from guppylang_internals.experimental import enable_experimental_features
    from vlib import gload
    enable_experimental_features()
    src, facts = build(item)
    o, mod = gload.run_src(src, fn="main", compile=True, with_prelude=False)
    rec = {"kind": o.kind, "title": o.title, "viol": [], "skip": None, "harness": None,
           "directions": [], "levels": 0, "invalid": False}
    try:
        if o.kind == "crash":
            rec["viol"].append((f"crash:{o.stage}:{o.exc.split(':')[0]}", o.exc[:200]))
        elif o.kind == "error":
            if facts["expect_reject_subscript_under_dagger"] and o.title == "Unsupported" \
                    and "dagger context" in o.rendered:
                rec["skip"] = "subscript-under-dagger"
            else:
                rec["viol"].append((f"rejected:{o.stage}:{o.title}", o.rendered[-300:].replace("\n", " | ")))
        elif facts["expect_reject_subscript_under_dagger"]:
            # C24's business; the lowering is still inspected
            rec["skip"] = None
            v, info = inspect(o.package, facts, item)
            rec["viol"], rec["directions"], rec["levels"] = v, info["directions"], info["levels"]
            rec["invalid"] = bool(info.get("invalid"))
            rec["accepted_subscript_under_dagger"] = True
        else:
            v, info = inspect(o.package, facts, item)
            rec["viol"], rec["directions"], rec["levels"] = v, info["directions"], info["levels"]
            rec["invalid"] = bool(info.get("invalid"))
    except Unsupported as e:
        # the structural tracer only understands well-formed wiring: if the real validator rejects
        # the package, that IS the finding (an accepted with-block lowered to an invalid HUGR)
        err = quiet_validate(o.package) if (o is not None and o.kind == "ok") else None
        if err is not None:
            msg = err.split("Stack backtrace")[0].strip().replace("\n", " ")
            rec["viol"] = [("invalid-hugr:other", f"{msg[-260:]} (tracer stopped at: {e})")]
            rec["invalid"] = True
            rec["kind"] = "ok"
        elif "reaches an output" in str(e):
            # a freshly packed control array flows into an output that belongs to another value:
            # the controls were not handed back to where they came from
            rec["viol"] = [("threading:packed-controls-reach-a-different-output", f"tracer: {e}")]
            rec["kind"] = "ok"
        else:
            rec["harness"] = f"tracer: {e}"
    finally:
        if mod is not None:
            gload.unload(mod)
    return rec


def describe(item):
    src, _ = build(item)
    body = src[len(HEADER):].split("\n")
    w = [ln.strip() for ln in body if ln.strip().startswith("with ")]
    return " / ".join(w) + f" / {BODY_SRC[item['body']]}"


def run(ctx):
    from guppylang_internals.experimental import enable_experimental_features
    enable_experimental_features()
    items = all_items(ctx.quick)
    evaluate(items[0])      # warm-up in the parent: workers inherit the loaded std library
    recs = ctx.pmap(evaluate, items, chunk=16)
    n = len(items)
    c = {"compiled_and_inspected": 0, "skipped_subscript_under_dagger": 0, "harness_unsupported": 0,
         "invalid_hugr": 0, "with_levels_inspected": 0, "chain_outermost_first": 0,
         "chain_innermost_first": 0, "chain_direction_indistinguishable": 0,
         "chain_normal_form_deviating_from_source_order": 0, "chain_other": 0,
         "accepted_subscript_under_dagger": 0}
    harness = []
    nontrivial = 0
    samples = []
    for it, r in zip(items, recs):
        if r["harness"]:
            c["harness_unsupported"] += 1
            if len(harness) < 5:
                harness.append(describe(it) + ": " + r["harness"])
            continue
        if r["skip"]:
            c["skipped_subscript_under_dagger"] += 1
        elif r["kind"] == "ok":
            c["compiled_and_inspected"] += 1
            c["with_levels_inspected"] += r["levels"]
            c["invalid_hugr"] += r["invalid"]
            c["accepted_subscript_under_dagger"] += bool(r.get("accepted_subscript_under_dagger"))
            for d in r["directions"]:
                c[{"outermost-first": "chain_outermost_first", "innermost-first": "chain_innermost_first",
                   "both": "chain_direction_indistinguishable",
                   "normal-form": "chain_normal_form_deviating_from_source_order",
                   "other": "chain_other"}[d]] += 1
            if len(it["stack"]) >= 2:
                nontrivial += 1
        for key, what in r["viol"]:
            ctx.violation(key, f"{describe(it)}: {what}", it)
    for idx in (0, 29, 313, 900, n - 1):
        if idx < n:
            r = recs[idx]
            samples.append({"program": describe(items[idx]), "outcome": r["kind"],
                            "chain_vs_source": r["directions"], "violations": [k for k, _ in r["viol"]]})
    if c["harness_unsupported"]:
        raise RuntimeError(f"C25 tracer could not follow {c['harness_unsupported']} programs, e.g. {harness}")
    from checks import c25b
    pb = c25b.run_part(ctx)
    return {
        **pb,
        "evaluations": n + pb["capture_programs"],
        "distinct_nontrivial": nontrivial,
        "rule": "compiled and inspected programs whose modifier stack has at least two modifiers",
        "samples": samples,
        "max_stack_length": 3 if ctx.quick else 4,
        **c,
    }


def replay(ctx, item):
    if item.get("part") == "capture":
        from checks import c25b
        return c25b.replay(ctx, item)
    return _replay(ctx, item)


def _replay(ctx, item):
    from guppylang_internals.experimental import enable_experimental_features
    enable_experimental_features()
    r = evaluate(item)
    src, _ = build(item)
    if r["harness"]:
        raise RuntimeError(r["harness"])
    return {"violation": bool(r["viol"]), "violations": r["viol"], "outcome": r["kind"],
            "title": r["title"], "chain_vs_source": r["directions"], "source": src}
