"""C12 part (b) — program level: a call of a generic function is accepted exactly when an
instantiation of its type variables exists.

Signatures whose parameter types mention the variables T, S in several shapes (bare, inside
tuples, nested tuples, arrays, repeated inside ONE parameter type and across parameters) x
argument lists built from expressions of known ground types {int, bool, tuples, arrays
thereof}, each argument written (a) as a literal expression in the call (checked against the
parameter type, variables still open) and (b) through a local variable (synthesised first).
Only int and bool leaves are used, so no implicit numeric coercion can make an otherwise
impossible instantiation possible.

Oracle: first-order unification (written here, 25 lines) of the parameter types with the
argument types.  unifiable => the call must be accepted (and compile to valid HUGR);
not unifiable => it must be rejected with a GuppyError.
"""
from __future__ import annotations

import itertools

# types: ("int",) ("bool",) ("var", name) ("tuple", t1, ..) ("array", t, n)
INT, BOOL = ("int",), ("bool",)
T, S = ("var", "T"), ("var", "S")


def tup(*ts):
    return ("tuple", *ts)


def arr(t, n):
    return ("array", t, n)


def show(t):
    if t[0] in ("int", "bool"):
        return t[0]
    if t[0] == "var":
        return t[1]
    if t[0] == "tuple":
        return "tuple[" + ", ".join(show(x) for x in t[1:]) + "]"
    return f"array[{show(t[1])}, {t[2]}]"


# expression atoms: (text, type)
ATOMS = [
    ("1", INT), ("True", BOOL),
    ("(1, 2)", tup(INT, INT)), ("(1, True)", tup(INT, BOOL)), ("(True, 2)", tup(BOOL, INT)), ("(True, False)", tup(BOOL, BOOL)),
    ("((1, 2), (3, 4))", tup(tup(INT, INT), tup(INT, INT))), ("((1, 2), (3, True))", tup(tup(INT, INT), tup(INT, BOOL))),
    ("((True, 2), (True, 4))", tup(tup(BOOL, INT), tup(BOOL, INT))),
    ("(1, (2, True))", tup(INT, tup(INT, BOOL))), ("(True, (2, True))", tup(BOOL, tup(INT, BOOL))),
    ("array(1, 2)", arr(INT, 2)), ("array(True, False)", arr(BOOL, 2)),
    ("(array(1, 2), 3)", tup(arr(INT, 2), INT)), ("(array(1, 2), True)", tup(arr(INT, 2), BOOL)),
]
# arguments that are themselves calls of generic functions whose result type is not (fully) determined by
# their own arguments; ("var", "?") is replaced by a fresh variable per argument position
OPEN = ("var", "?")
OPEN_ATOMS = [
    ("mk1()", OPEN), ("mk(1)", tup(INT, OPEN)), ("mk(True)", tup(BOOL, OPEN)), ("idf(1)", INT), ("idf(mk1())", OPEN),
    ("(1, mk1())", tup(INT, OPEN)), ("mkarr()", arr(OPEN, 2)),
    # ONE undetermined variable occurring twice in the argument's type
    ("mk3((True,))", tup(tup(BOOL), OPEN, OPEN)), ("mk3(1)", tup(INT, OPEN, OPEN)),
]
OPEN_DECLS = ("@guppy.declare\ndef mk1[B]() -> B: ...\n\n@guppy.declare\ndef mk[A, B](x: A) -> tuple[A, B]: ...\n\n"
              "@guppy.declare\ndef idf[A](x: A) -> A: ...\n\n@guppy.declare\ndef mkarr[B]() -> array[B, 2]: ...\n\n"
              "@guppy.declare\ndef mk3[A, B](x: A) -> tuple[A, B, B]: ...\n\n")

# signatures: list of parameter types
SIGS = {
    "two-params": [T, T],
    "pair": [tup(T, T)],
    "pair-and-param": [tup(T, T), T],
    "crossed-pairs": [tup(T, S), tup(S, T)],
    "nested-pairs": [tup(tup(T, T), tup(T, T))],
    "nested-mixed": [tup(T, tup(T, S))],
    "nested-mixed-and-param": [tup(T, tup(S, T)), S],
    "array-and-param": [arr(T, 2), T],
    "array-in-tuple": [tup(arr(T, 2), T)],
    "pair-of-two-vars-and-param": [tup(T, S), S],
    "triple-with-repeated-var": [tup(tup(T), T, INT)],
    "triple-two-vars": [tup(T, S, S)],
}
# generic FUNCTION VALUES as arguments (outside the first-order unifier above: verdicts by hand)
HIGHER = [
    ("apply(idf, 3)", True), ("apply(idf, True)", False), ("apply_r(3, idf)", True), ("apply_r(True, idf)", False),
    ("apply(inc, 3)", True), ("apply(inc, True)", False), ("apply_pair(idf, (1, 2))", False),
    ("applyc(inc, 3)", True), ("applyc(idf, 3)", True), ("applyc(inc, True)", False),
]
HIGHER_DECLS = ("from collections.abc import Callable\n\n@guppy.declare\ndef apply[T](f: Callable[[T], int], x: T) -> int: ...\n\n"
                "@guppy.declare\ndef apply_r[T](x: T, f: Callable[[T], int]) -> int: ...\n\n@guppy.declare\ndef inc(x: int) -> int: ...\n\n"
                "@guppy.declare\ndef twice[T](f: Callable[[T], T], g: Callable[[T], int], x: T) -> int: ...\n\n"
                "@guppy.declare\ndef apply_pair[T](f: Callable[[T], int], x: T) -> int: ...\n\n"
                "from guppylang.std.lang import Copy, Drop\n\n@guppy.declare\ndef applyc[T: (Copy, Drop)](f: Callable[[T], int], x: T) -> int: ...\n\n")


def walk(t, s):
    while t[0] == "var" and t[1] in s:
        t = s[t[1]]
    return t


def occurs(v, t, s):
    t = walk(t, s)
    if t[0] == "var":
        return t[1] == v
    return any(occurs(v, x, s) for x in t[1:] if isinstance(x, tuple))


def unify(a, b, s):
    """Full first-order unification (variables on both sides).  Returns the extended substitution or None."""
    a, b = walk(a, s), walk(b, s)
    if a == b:
        return s
    if a[0] == "var":
        return None if occurs(a[1], b, s) else {**s, a[1]: b}
    if b[0] == "var":
        return None if occurs(b[1], a, s) else {**s, b[1]: a}
    if a[0] != b[0]:
        return None
    if a[0] in ("int", "bool"):
        return s
    if a[0] == "array":
        return unify(a[1], b[1], s) if a[2] == b[2] else None
    if len(a) != len(b):
        return None
    for x, y in zip(a[1:], b[1:]):
        s = unify(x, y, s)
        if s is None:
            return None
    return s


def _owned(t):
    return " @owned" if "array" in show(t) else ""


def program(sig, args, mode):
    params = ", ".join(f"p{i}: {show(t)}{_owned(t)}" for i, t in enumerate(SIGS[sig]))
    # declared only: no body, so nothing but the call itself can be rejected
    src = OPEN_DECLS + f"@guppy.declare\ndef callee[T, S]({params}) -> None: ...\n\n" if "S" in params else \
          OPEN_DECLS + f"@guppy.declare\ndef callee[T]({params}) -> None: ...\n\n"
    body = []
    if mode == "literal":
        call = ", ".join(a for a, _ in args)
    else:
        for i, (a, _) in enumerate(args):
            body.append(f"v{i} = {a}")
        call = ", ".join(f"v{i}" for i in range(len(args)))
    body.append(f"callee({call})")
    return src + "@guppy\ndef main() -> None:\n" + "".join(f"    {l}\n" for l in body)


def items():
    out = []
    for sig, ptys in SIGS.items():
        for args in itertools.product(ATOMS, repeat=len(ptys)):
            for mode in ("literal", "variable"):
                out.append((sig, [list(a) for a in args], mode))
        # at least one open argument (only written directly in the call: a variable cannot hold a value of
        # undetermined type)
        small = [a for a in ATOMS if a[0] in ("1", "True", "(1, 2)", "(1, True)", "array(1, 2)")]
        for args in itertools.product(small + OPEN_ATOMS, repeat=len(ptys)):
            if any(a in OPEN_ATOMS for a in args):
                out.append((sig, [list(a) for a in args], "literal"))
    return out


def _fresh(t, i):
    if t == OPEN:
        return ("var", f"?{i}")
    if t[0] in ("tuple", "array"):
        return (t[0], *[_fresh(x, i) if isinstance(x, tuple) else x for x in t[1:]])
    return t


def _ground(t, s):
    t = walk(t, s)
    if t[0] == "var":
        return False
    return all(_ground(x, s) for x in t[1:] if isinstance(x, tuple))


def _tt(x):
    return tuple(_tt(y) for y in x) if isinstance(x, list) else x


def run_item(item):
    from vlib import gload
    sig, args, mode = item
    args = [(a, _tt(t)) for a, t in args]
    s = {}
    argtys = [_fresh(at, i) for i, (_, at) in enumerate(args)]
    for p, at in zip(SIGS[sig], argtys):
        s = unify(p, at, s)
        if s is None:
            break
    exists = s is not None
    if exists and not all(_ground(at, s) for at in argtys + list(SIGS[sig])):
        exists = "undetermined"        # an instantiation exists but the arguments do not fix it: either verdict
    o, mod = gload.run_src(program(sig, args, mode))
    try:
        if o.kind == "crash":
            return ("crash", exists, o.exc[:160])
        if o.kind == "error":
            return ("rejected", exists, o.title)
        bad = gload.validate(o.package)
        return ("invalid-hugr" if bad else "accepted", exists, "")
    finally:
        if mod is not None:
            gload.unload(mod)


def run_higher(case):
    from vlib import gload
    call, exists = case
    o, mod = gload.run_src(OPEN_DECLS + HIGHER_DECLS + f"@guppy\ndef main() -> None:\n    r = {call}\n")
    try:
        if o.kind == "crash":
            return ("crash", exists, o.exc[:160])
        if o.kind == "error":
            return ("rejected", exists, o.title)
        return ("invalid-hugr" if gload.validate(o.package) else "accepted", exists, "")
    finally:
        if mod is not None:
            gload.unload(mod)


def run_part(ctx):
    its = items()
    res = ctx.pmap(run_item, its, chunk=32)
    acc = rej = 0
    titles = {}
    und = {}
    for case, (got, exists, detail) in zip(HIGHER, ctx.pmap(run_higher, HIGHER, chunk=2)):
        if got in ("crash", "invalid-hugr"):
            ctx.violation(f"b:{got}:function-value-argument", f"{case[0]}: {got}: {detail}", {"part": "b", "higher": list(case)})
        elif (got == "accepted") != exists:
            ctx.violation(f"b:{'accepted-without-instantiation' if got == 'accepted' else 'rejected-although-instantiation-exists'}:function-value-argument",
                          f"{case[0]}: {got} ({detail}) although an instantiation {'exists' if exists else 'does not exist'}", {"part": "b", "higher": list(case)})
    for it, (got, exists, detail) in zip(its, res):
        sig, args, mode = it
        desc = f"callee[{', '.join(show(p) for p in SIGS[sig])}]({', '.join(a for a, _ in args)}) [{mode} arguments]"
        if got == "crash":
            ctx.violation(f"b:crash:{sig}:{mode}", f"{desc}: compiler crashed: {detail}", {"part": "b", "item": it})
        elif got == "invalid-hugr":
            ctx.violation(f"b:invalid-hugr:{sig}:{mode}", f"{desc}: accepted, HUGR does not validate", {"part": "b", "item": it})
        elif exists == "undetermined":
            und[got] = und.get(got, 0) + 1
        elif got == "accepted":
            acc += 1
            if not exists:
                ctx.violation(f"b:accepted-without-instantiation:{sig}:{mode}",
                              f"{desc}: accepted although no instantiation of the type variables makes the parameter types equal the "
                              f"argument types", {"part": "b", "item": it})
        else:
            rej += 1
            titles[detail] = titles.get(detail, 0) + 1
            if exists:
                open_arg = ":open-argument" if any(a in [x[0] for x in OPEN_ATOMS] for a, _ in args) else ""
                ctx.violation(f"b:rejected-although-instantiation-exists{open_arg}:{sig}:{mode}",
                              f"{desc}: rejected ({detail}) although an instantiation exists", {"part": "b", "item": it})
    return {"b_generic_calls": len(its), "b_accepted": acc, "b_rejected": rej, "b_rejection_titles": titles, "b_undetermined_instantiation_either_verdict": und,
            "b_signatures": {k: [show(p) for p in v] for k, v in SIGS.items()}}


def replay(ctx, item):
    if "higher" in item:
        got, exists, detail = run_higher(tuple(item["higher"]))
        return {"violation": got in ("crash", "invalid-hugr") or (got == "accepted") != exists, "got": got, "detail": detail}
    got, exists, detail = run_item(tuple(item["item"]))
    return {"violation": got in ("crash", "invalid-hugr") or (exists != "undetermined" and (got == "accepted") != exists),
            "got": got, "instantiation_exists": exists, "detail": detail,
            "source": program(item["item"][0], [(a, _tt(t)) for a, t in item["item"][1]], item["item"][2])}
