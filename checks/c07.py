"""C07 — Borrowed arguments reflect the callee's in-place updates.

Enumerates (place shape) x (payload) x (sequence of 1..2 mutating callees) programs:
the caller holds a non-copyable value in a variable, struct field, tuple element, array
element, element-of-element or field-of-element, lends it to callees that mutate it in
place (element assignment, augmented assignment, swap, field-of-borrowed-struct update,
gate application, nested borrowing calls two levels deep), then reports every element.
Oracle: CPython's reference semantics on the same source text (vlib.pyoracle).
Indices are runtime parameters over all valid values.
"""
from __future__ import annotations

import itertools

from vlib import gload, hugrvm, pyoracle

ID = "C07"
LEVEL = "exploration"

HEADER = '''
from guppylang.std.quantum import measure_array
from guppylang.std.debug import state_result
from collections.abc import Callable

@guppy.struct
class S:
    arr: array[int, 2]
    k: int

    @guppy
    def bump(self: "S") -> None:
        self.arr[0] += 1
        self.arr[1] = self.k

    @guppy
    def bump_by(self: "S", other: array[int, 2]) -> None:
        self.arr[1] += other[0]
        other[1] += 100

@guppy.struct
class O:
    inner: S
    tag: int

@guppy.struct
class Q:
    q: qubit
    n: int

@guppy
def set0(a: array[int, 2]) -> None:
    a[0] = 9

@guppy
def inc1(a: array[int, 2]) -> None:
    a[1] += 5

@guppy
def swap01(a: array[int, 2]) -> None:
    a[0], a[1] = a[1], a[0]

@guppy
def nested(a: array[int, 2]) -> None:
    set0(a)
    inc1(a)
    swap01(a)

@guppy
def sset(s: S) -> None:
    s.arr[0] = 7

@guppy
def sdeep(s: S) -> None:
    inc1(s.arr)
    sset(s)

@guppy
def oset(o: O) -> None:
    sdeep(o.inner)

@guppy
def oreplace(o: O) -> None:
    o.inner = S(array(7, 8), 42)

@guppy.comptime
def ct_skset(s: S) -> None:
    s.k = s.k + 10

@guppy.comptime
def ct_otag(o: O) -> None:
    o.tag = o.tag + 1
    o.inner.k = o.inner.k + 20

@guppy
def flip(q: qubit) -> None:
    x(q)

@guppy
def flip2(q: qubit) -> None:
    flip(q)
    z(q)

@guppy
def qflip(s: Q) -> None:
    flip2(s.q)

@guppy
def both(a: qubit, b: qubit) -> None:
    x(a)
    cx(a, b)

@guppy
def apply1(f: Callable[[array[int, 2]], None], a: array[int, 2]) -> None:
    f(a)

@guppy
def apply2(f: Callable[[array[int, 2], array[int, 2]], None], a: array[int, 2], b: array[int, 2]) -> None:
    f(b, a)

@guppy
def gswap[T](u: T, w: T) -> None:
    mem_swap(u, w)

@guppy
def upd_first(xs: array[int, 2], ys: array[int, 2] @owned) -> None:
    xs[0] = 100

@guppy
def upd_second(xs: array[int, 2] @owned, ys: array[int, 2]) -> None:
    ys[1] = 200

@guppy
def app_owned_borrowed(f: Callable[[array[int, 2] @owned, array[int, 2]], None], a: array[int, 2] @owned, b: array[int, 2]) -> None:
    f(a, b)

@guppy
def app_borrowed_owned(f: Callable[[array[int, 2], array[int, 2] @owned], None], a: array[int, 2], b: array[int, 2] @owned) -> None:
    f(a, b)

@guppy
def add_into(src: array[int, 2], dst: array[int, 2]) -> None:
    dst[0] += src[0]
    src[1] += 100

@guppy
def three(p: array[int, 2], q: array[int, 2], r: array[int, 2]) -> None:
    p[0] += 1000
    q[0] += 2000
    r[0] += 3000
    r[1] = p[1] * 10 + q[1]

@guppy
def mk2() -> array[int, 2]:
    return array(40, 50)

@guppy
def nxt(ctr: array[int, 1]) -> int:
    ctr[0] += 1
    return ctr[0] - 1

@guppy
def rebind_branch(a: array[int, 2]) -> None:
    if a[0] > 0:
        a = array(7, 8)
        a[1] = 9

@guppy
def rebind_loop(a: array[int, 2]) -> None:
    for _ in range(2):
        a = array(70, 80)
    a[0] = 6

@guppy
def rebind_entry(a: array[int, 2]) -> None:
    a = array(17, 18)
    a[1] = 19
'''

ARR_CALLEES = ["set0", "inc1", "swap01", "nested", "rebind_branch", "rebind_loop", "rebind_entry"]
S_CALLEES = ["sset", "sdeep"]
Q_CALLEES = ["flip", "flip2"]
O_CALLEES = ["oset", "oreplace"]


def arr_places():
    """(name, setup lines, place expr, observation lines, runtime index params used)"""
    def obs(e):
        return [f'result("o0", {e}[0])', f'result("o1", {e}[1])']
    P = []
    P.append(("var", ["a = array(1, 2)"], "a", obs("a"), 0))
    P.append(("struct-field", ["s = S(array(1, 2), 3)"], "s.arr", obs("s.arr") + ['result("k", s.k)'], 0))
    P.append(("nested-struct-field", ["o = O(S(array(1, 2), 3), 4)"], "o.inner.arr", obs("o.inner.arr") + ['result("t", o.tag)'], 0))
    P.append(("tuple-element", ["t = (array(1, 2), 5)"], "t[0]", ["a, k = t"] + obs("a") + ['result("k", k)'], 0))
    P.append(("array-element", ["xss = array(array(1, 2), array(3, 4), array(5, 6))"], "xss[i]",
              [l for n in range(3) for l in obs(f"xss[{n}]")], 1))
    P.append(("field-of-array-element", ["ss = array(S(array(1, 2), 0), S(array(3, 4), 1))"], "ss[i].arr",
              [l for n in range(2) for l in obs(f"ss[{n}].arr")], 1))
    P.append(("array-element-impure-index", ["xss = array(array(1, 2), array(3, 4), array(5, 6))", "ctr = array(i)"], "xss[nxt(ctr)]",
              [l for n in range(3) for l in obs(f"xss[{n}]")] + ['result("ctr", ctr[0])'], 1))
    P.append(("element-of-element", ["x3 = array(array(array(1, 2), array(3, 4)), array(array(5, 6), array(7, 8)))"], "x3[i][j]",
              [l for a in range(2) for b in range(2) for l in obs(f"x3[{a}][{b}]")], 2))
    return P


def s_places():
    def obs(e):
        return [f'result("o0", {e}.arr[0])', f'result("o1", {e}.arr[1])', f'result("k", {e}.k)']
    P = []
    P.append(("var", ["s = S(array(1, 2), 3)"], "s", obs("s"), 0))
    P.append(("struct-field", ["o = O(S(array(1, 2), 3), 4)"], "o.inner", obs("o.inner") + ['result("t", o.tag)'], 0))
    P.append(("array-element", ["ss = array(S(array(1, 2), 0), S(array(3, 4), 1))"], "ss[i]",
              [l for n in range(2) for l in obs(f"ss[{n}]")], 1))
    return P


def o_places():
    """Places holding a struct that contains another non-copyable struct AND classical fields at two depths."""
    def obs(e):
        return [f'result("o0", {e}.inner.arr[0])', f'result("o1", {e}.inner.arr[1])', f'result("k", {e}.inner.k)', f'result("t", {e}.tag)']
    P = []
    P.append(("var", ["o = O(S(array(1, 2), 3), 4)"], "o", obs("o"), 0))
    P.append(("array-element", ["os = array(O(S(array(1, 2), 3), 4), O(S(array(5, 6), 7), 8))"], "os[i]",
              [l for n in range(2) for l in obs(f"os[{n}]")], 1))
    P.append(("tuple-element", ["t = (O(S(array(1, 2), 3), 4), 5)"], "t[0]", ["o, k9 = t"] + obs("o") + ['result("k9", k9)'], 0))
    return P


def q_places():
    P = []
    P.append(("var", ["q = qubit()"], "q", ['result("m", measure(q))'], 0))
    P.append(("array-element", ["qs = array(qubit() for _ in range(3))"], "qs[i]", ['result("m", measure_array(qs))'], 1))
    P.append(("struct-field", ["s = Q(qubit(), 1)"], "s.q", ['result("n", s.n)', 'result("m", measure(s.q))'], 0))
    P.append(("element-of-element", ["qq = array(array(qubit() for _ in range(2)) for _ in range(2))"], "qq[i][j]",
              ["for row in qq:", '    result("m", measure_array(row))'], 2))
    return P


def programs(tier):
    out = []
    maxcalls = 2 if tier == "quick" else 3
    for places, callees, payload in ((arr_places(), ARR_CALLEES, "int-array"), (s_places(), S_CALLEES, "struct"),
                                     (q_places(), Q_CALLEES, "qubit"), (o_places(), O_CALLEES, "nested-struct")):
        for (pname, setup, place, obs, nidx) in places:
            for L in range(1, maxcalls + 1):
                for seq in itertools.product(callees, repeat=L):
                    body = list(setup) + [f"{c}({place})" for c in seq] + obs
                    out.append((payload, pname, "+".join(seq), body, nidx))
    # special shapes
    out.append(("struct", "var", "oset", ["o = O(S(array(1, 2), 3), 4)", "oset(o)", 'result("o0", o.inner.arr[0])',
                                         'result("o1", o.inner.arr[1])', 'result("k", o.inner.k)'], 0))
    out.append(("qubit", "struct", "qflip", ["s = Q(qubit(), 1)", "qflip(s)", 'result("m", measure(s.q))'], 0))
    out.append(("qubit", "two-array-elements", "both", ["qs = array(qubit() for _ in range(3))", "both(qs[i], qs[(i + 1) % 3])",
                                                        'result("m", measure_array(qs))'], 1))
    out.append(("int-array", "loop", "nested-in-loop", ["a = array(1, 2)", "for _ in range(3):", "    nested(a)",
                                                        'result("o0", a[0])', 'result("o1", a[1])'], 0))
    # the CALLER is a comptime function: every index-free program above once more, traced instead of checked ...
    for payload, pname, seq, body, nidx in list(out):
        if nidx == 0 and payload in ("int-array", "struct", "nested-struct") and pname != "loop":
            out.append((payload + "@comptime-caller", pname, seq, body, nidx))
    # ... and lent struct objects whose classical fields hold PLAIN Python values (assigned in the comptime caller)
    for L in range(1, maxcalls + 1):
        for seq in itertools.product(("ct_skset", "sdeep", "sset"), repeat=L):
            out.append(("struct@comptime-caller", "var-python-field", "+".join(seq),
                        ["s = S(array(1, 2), 3)", "s.k = 7"] + [f"{c}(s)" for c in seq] +
                        ['result("o0", s.arr[0])', 'result("o1", s.arr[1])', 'result("k", s.k)'], 0))
        for seq in itertools.product(("oreplace", "oset", "ct_otag"), repeat=L):
            out.append(("nested-struct@comptime-caller", "var-python-field", "+".join(seq),
                        ["o = O(S(array(1, 2), 3), 4)", "o.tag = 5", "o.inner.k = 6"] + [f"{c}(o)" for c in seq] +
                        ['result("o0", o.inner.arr[0])', 'result("o1", o.inner.arr[1])', 'result("k", o.inner.k)', 'result("t", o.tag)'], 0))
    out += multi_programs(tier)
    out += mechanism_programs(tier)
    out.append(("int-array", "branch", "call-in-branch", ["a = array(1, 2)", "if i == 0:", "    set0(a)", "else:", "    inc1(a)",
                                                          'result("o0", a[0])', 'result("o1", a[1])'], 1))
    return out


# ---- calls with SEVERAL borrowed parameters of one type: every ordered combination of argument kinds
# (caller places of every shape, and temporaries whose returned value is dropped)
MULTI_SETUP = ["a = array(1, 2)", "a2 = array(3, 4)", "s = S(array(5, 6), 0)", "s2 = S(array(7, 8), 0)",
               "o = O(S(array(9, 10), 0), 0)", "xss = array(array(11, 12), array(13, 14), array(15, 16))",
               "x3 = array(array(array(17, 18), array(19, 20)), array(array(21, 22), array(23, 24)))",
               "ss = array(S(array(25, 26), 0), S(array(27, 28), 1))", "a3 = array(60, 70)", "t = (array(29, 30), 5)"]
MULTI_OBS = ([f'result("{n}{k}", {e}[{k}])' for n, e in (("a", "a"), ("a2", "a2"), ("s", "s.arr"), ("s2", "s2.arr"), ("o", "o.inner.arr"), ("a3", "a3"))
              for k in range(2)]
             + [f'result("xss{r}{k}", xss[{r}][{k}])' for r in range(3) for k in range(2)]
             + [f'result("x3{a}{b}{k}", x3[{a}][{b}][{k}])' for a in range(2) for b in range(2) for k in range(2)]
             + [f'result("ss{r}{k}", ss[{r}].arr[{k}])' for r in range(2) for k in range(2)]
             + ["ta, tk = t", 'result("t0", ta[0])', 'result("t1", ta[1])'])
# kind -> (expression as 1st / 2nd / 3rd argument): distinct instances so that nothing is lent twice
MULTI_ARGS = {
    "var": ("a", "a2", "a3"),
    "field": ("s.arr", "s2.arr", "o.inner.arr"),
    "nested-field": ("o.inner.arr", "s.arr", "s2.arr"),
    "tuple-elem": ("t[0]", "a2", "a3"),
    "elem": ("xss[i]", "xss[(i + 1) % 3]", "xss[(i + 2) % 3]"),
    "elem-of-elem": ("x3[0][j]", "x3[1][j]", "x3[0][1 - j]"),
    "field-of-elem": ("ss[j].arr", "ss[1 - j].arr", "s.arr"),
    "temp-literal": ("array(10, 20)", "array(30, 40)", "array(50, 60)"),
    "temp-call": ("mk2()", "mk2()", "mk2()"),
    "temp-copy": ("a3.copy()", "a3.copy()", "a3.copy()"),
}
_DISTINCT = {"tuple-elem": 1, "nested-field": 1}


def multi_programs(tier):
    out = []
    kinds = list(MULTI_ARGS)
    for k1, k2 in itertools.product(kinds, repeat=2):
        e1, e2 = MULTI_ARGS[k1][0], MULTI_ARGS[k2][1]
        if e1 == e2 or {e1, e2} <= {"o.inner.arr"}:
            continue
        body = MULTI_SETUP + [f"add_into({e1}, {e2})"] + MULTI_OBS
        out.append(("int-array", f"two-borrowed:{k1},{k2}", "add_into", body, 2))
    k3 = ["var", "field", "elem", "elem-of-elem", "temp-literal", "temp-call"] if tier == "quick" else kinds
    for ks in itertools.product(k3, repeat=3):
        es = [MULTI_ARGS[k][n] for n, k in enumerate(ks)]
        if len(set(es)) < 3 and not all(e.startswith(("array(", "mk2", "a3.copy")) for e in es if es.count(e) > 1):
            continue
        if "x3[0][j]" in es and "x3[0][1 - j]" in es:
            continue        # the same row x3[0] would be lent twice
        body = MULTI_SETUP + [f"three({', '.join(es)})"] + MULTI_OBS
        out.append(("int-array", f"three-borrowed:{','.join(ks)}", "three", body, 2))
    return out


# ---- every call MECHANISM that lends an argument: direct call (above), call of a function value, a function
# passed on as an argument, function tensor, method with borrowed self, generic callee, barrier, state_result
def mechanism_programs(tier):
    out = []
    for (pname, setup, place, obs, nidx) in arr_places():
        extra = ["zz = array(7, 8)"]
        eobs = ['result("zz0", zz[0])', 'result("zz1", zz[1])']
        forms = {
            "function-value": ["f = inc1", f"f({place})", "g = nested", f"g({place})"],
            "function-value-two-args": ["f = add_into", f"f(zz, {place})", f"f({place}, zz)"],
            "function-as-argument": [f"apply1(set0, {place})", f"apply1(swap01, {place})"],
            "function-as-argument-two": [f"apply2(add_into, {place}, zz)"],
            "tensor-call": [f"(set0, inc1)({place}, zz)"],
            "tensor-call-reversed": [f"(inc1, swap01)(zz, {place})"],
            "tensor-call-two-arg-callee": [f"(add_into, set0)({place}, zz, zz)" if False else f"(inc1, add_into)(zz, zz2, {place})"],
            "generic-callee": [f"gswap({place}, zz)"],
            "generic-callee-reversed": [f"gswap(zz, {place})"],
        }
        for fn, lines in forms.items():
            if fn.startswith("generic-callee") and pname in ("tuple-element", "array-element-impure-index"):
                continue     # the oracle's rewrite of the swap needs an assignable, side-effect-free place
            out.append(("int-array", f"{pname}", f"mechanism:{fn}", list(setup) + extra + ["zz2 = array(70, 80)"] + lines + obs + eobs +
                        ['result("zz20", zz2[0])', 'result("zz21", zz2[1])'], nidx))
    # a function handed to a Callable parameter whose ownership annotations differ from the function's: must be
    # rejected, or behave as the function does
    for app, fn in itertools.product(("app_owned_borrowed", "app_borrowed_owned"), ("upd_first", "upd_second")):
        out.append(("int-array", "var", f"mechanism:callable-flags:{app}({fn})",
                    ["a = array(1, 2)", "zz = array(7, 8)", f"{app}({fn}, a, zz)"] +
                    (['result("zz0", zz[0])', 'result("zz1", zz[1])'] if app == "app_owned_borrowed" else ['result("a0", a[0])', 'result("a1", a[1])']), 0))
    for (pname, setup, place, obs, nidx) in s_places():
        for fn, lines in {"method-borrowed-self": [f"{place}.bump()"],
                          "method-borrowed-self-and-arg": ["zz = array(7, 8)", f"{place}.bump_by(zz)", 'result("zz0", zz[0])', 'result("zz1", zz[1])'],
                          }.items():
            out.append(("struct", pname, f"mechanism:{fn}", list(setup) + lines + obs, nidx))
    for (pname, setup, place, obs, nidx) in q_places():
        for fn, lines in {"barrier": ["q9 = qubit()", f"barrier({place}, q9)", f"x({place})", "x(q9)", f"barrier(q9, {place})", 'result("m9", measure(q9))'],
                          "state-result": ["q9 = qubit()", f"x({place})", f'state_result("st", {place}, q9)', f"z({place})", 'result("m9", measure(q9))']}.items():
            out.append(("qubit", pname, f"mechanism:{fn}", list(setup) + lines + obs, nidx))
    return out


import re as _re

_TENSOR = _re.compile(r"^(\s*)\((\w+), (\w+)\)\((.*)\)$", _re.M)
_GSWAP = _re.compile(r"^(\s*)gswap\((.+), (.+)\)$", _re.M)
_ARITY = {"set0": 1, "inc1": 1, "swap01": 1, "nested": 1, "add_into": 2}


def py_variant(src: str) -> str:
    """For the CPython oracle only: a function tensor `(f, g)(a, b, c)` is the calls f(...) then g(...) on
    consecutive argument groups; a generic swap of two places is reads followed by write-backs; state_result
    reports nothing."""
    def tensor(m):
        ind, f, g, args = m.group(1), m.group(2), m.group(3), [a.strip() for a in m.group(4).split(",")]
        nf = _ARITY[f]
        return f"{ind}{f}({', '.join(args[:nf])}); {g}({', '.join(args[nf:])})"
    src = _TENSOR.sub(tensor, src)
    src = _GSWAP.sub(lambda m: f"{m.group(1)}_sw_a = {m.group(2)}; _sw_b = {m.group(3)}; {m.group(2)} = _sw_b; {m.group(3)} = _sw_a", src)
    return src


def source(body, payload=""):
    deco = "@guppy.comptime" if payload.endswith("@comptime-caller") else "@guppy"
    return HEADER + f"\n{deco}\ndef main(i: int, j: int) -> None:\n" + "\n".join("    " + l for l in body) + "\n"


class _Oracle(pyoracle.Oracle):
    def namespace(self):
        ns = super().namespace()

        def measure_array(qs):
            return pyoracle.PyArray(*[ns["measure"](q) for q in qs])

        ns["measure_array"] = measure_array
        ns["state_result"] = lambda *a: None
        return ns


def _norm(events):
    return [(e[1], e[2]) for e in events if e[0] == "result"]


def eval_program(item):
    import warnings
    warnings.simplefilter("ignore", SyntaxWarning)      # `(f, g)(a, b)` is a function tensor in Guppy
    payload, pname, seq, body, nidx = item
    src = source(body, payload)
    res = {"status": "", "dis": None, "runs": 0, "harness": None, "title": ""}
    o, mod = gload.run_src(src)
    if o.kind == "crash":
        res["status"] = "crash"
        res["dis"] = {"cls": "compiler-crash", "detail": o.exc}
        return res
    if o.kind == "error":
        res["status"] = "rejected"
        res["title"] = o.title
        return res
    res["status"] = "accepted"
    h = o.package.modules[0]
    code = pyoracle.prepare(gload.PRELUDE + py_variant(src))
    rng = {"array-element": 3 if payload != "struct" else 2, "field-of-array-element": 2}.get(pname, 2)
    if nidx == 0:
        inputs = [(0, 0)]
    elif nidx == 1:
        inputs = [(a, 0) for a in range(3 if ("qs" in src or "xss" in src) else 2)]
    else:
        inputs = [(a, b) for a in range(2) for b in range(2)]
    for args in inputs:
        st, _, trace = _Oracle(6000).run(code, "main", list(args))
        if st == "panic":
            # (only the impure-index place can run out of bounds) the compiled program must panic too
            r = hugrvm.run(h, "main", [hugrvm.to_vm(a) for a in args], step_budget=300000)
            res["runs"] += 1
            if r.status != "panic":
                res["dis"] = {"cls": "no-panic-where-python-model-panics", "input": list(args), "python": _norm(trace),
                              "guppy": [r.status, _norm(r.events)]}
                return res
            continue
        if st != "ok":
            res["harness"] = f"oracle {st} on {args}: {_}"
            return res
        r = hugrvm.run(h, "main", [hugrvm.to_vm(a) for a in args], step_budget=300000)
        if r.status in ("unsupported", "invariant"):
            res["harness"] = f"{r.status}: {r.detail}"
            return res
        res["runs"] += 1
        want, got = _norm(trace), _norm(r.events)
        if r.status != "ok" or want != got:
            res["dis"] = {"cls": "caller-sees-different-value", "input": list(args), "python": want, "guppy": [r.status, r.panic, got]}
            return res
    return res


def run(ctx):
    import guppylang_internals.experimental as ex
    ex.enable_experimental_features()          # function tensors
    progs = programs(ctx.tier)
    results = ctx.pmap(eval_program, progs, chunk=4)
    acc = rej = runs = 0
    rejected = {}
    per_place = {}
    samples = []
    for it, r in zip(progs, results):
        payload, pname, seq, body, nidx = it
        if r["harness"]:
            raise RuntimeError(f"harness problem: {r['harness']}\n{source(body, payload)}")
        key = f"{payload}:{pname}"
        if r["status"] == "rejected":
            rej += 1
            rejected[key] = r["title"]
            continue
        if r["status"] == "accepted":
            acc += 1
            per_place[key] = per_place.get(key, 0) + 1
        runs += r["runs"]
        if r["dis"]:
            d = r["dis"]
            ctx.violation(f"{d['cls']}:{payload}:{pname}:{seq}", f"{payload} at place `{pname}`, callees {seq}: {d}",
                          {"item": [payload, pname, seq, body, nidx]})
        if len(samples) < 5 and acc % 37 == 2:
            samples.append({"payload": payload, "place": pname, "callees": seq, "body": body})
    return {
        "evaluations": runs, "distinct_nontrivial": acc,
        "rule": "place shape x payload x sequences of mutating callees (1..2 quick, 1..3 thorough) + loop/branch/two-element shapes; every "
                "valid runtime index; non-trivial = accepted and executed",
        "samples": samples, "programs": len(progs), "accepted": acc, "rejected_by_checker": rej,
        "accepted_per_place": per_place, "rejected_places": rejected,
    }


def replay(ctx, item):
    import guppylang_internals.experimental as ex
    ex.enable_experimental_features()
    r = eval_program(tuple(item["item"]))
    return {"violation": bool(r["dis"]), "result": r, "source": source(item["item"][3], item["item"][0])}
