"""C32 — Accepted syntax is never silently ignored.

One host function per Python statement / expression kind and optional clause, placed in
four contexts (function body, inside `if`, inside a loop, inside a nested function).
Each host is built so that, under CPython, the construct has an observable effect on the
`result` trace (or stops the program by raising).  Oracle: the compiler rejects the
program (any Guppy error), or the compiled program's trace under hugrvm equals CPython's
trace of the same source - where CPython raises, the compiled program must stop there too
(panic).  Constructs whose Python meaning cannot be observed this way (yield / await /
async) must be rejected.
"""
from __future__ import annotations

from vlib import gload, hugrvm, pyoracle

ID = "C32"
LEVEL = "exploration"

HEADER = '''
@guppy
def sub(a: int, b: int) -> int:
    return a - b

@guppy
def dflt(a: int, b: int = 5) -> int:
    return a * 10 + b

@guppy.struct
class P:
    u: int
    w: int

def deco(f):
    return f

def deco_n(i):
    return lambda f: f

@guppy
def note(i: int) -> int:
    result("note", i)
    return i

@guppy
def sub3(a: int, b: int, c: int) -> int:
    return a * 100 + b * 10 + c
'''

# (name, kind, lines).  x: int (1 or 7), c: bool are parameters of the host.
CONSTRUCTS = [
    ("while-else", "observe", ["i = 0", "while i < 2:", "    i += 1", "else:", '    result("else", i)']),
    ("while-else-with-break", "observe", ["i = 0", "while i < 3:", "    i += 1", "    if i == x:", "        break", "else:", '    result("else", i)']),
    ("for-else", "observe", ["for i in range(2):", '    result("i", i)', "else:", '    result("else", 9)']),
    ("for-else-with-break", "observe", ["for i in range(3):", "    if i == x:", "        break", "else:", '    result("else", 9)']),
    ("try-except", "observe", ["try:", '    result("try", 1)', "except Exception:", '    result("exc", 2)']),
    ("try-finally", "observe", ["try:", '    result("try", 1)', "finally:", '    result("fin", 3)']),
    ("try-except-else", "observe", ["try:", '    result("try", 1)', "except Exception:", "    pass", "else:", '    result("else", 4)']),
    ("with-as", "must-reject", ["with open('f') as fh:", '    result("w", 1)']),
    ("keyword-args", "observe", ['result("k", sub(b=1, a=x))']),
    ("keyword-args-mixed", "observe", ['result("k", sub(x, b=2))']),
    ("call-star-args", "observe", ["t = (x, 2)", 'result("s", sub(*t))']),
    ("call-star-star-kwargs", "observe", ['result("s", sub(**{"a": x, "b": 2}))']),
    ("default-argument-used", "observe", ['result("d", dflt(x))']),
    ("nested-def-default", "observe", ["def g(a: int, b: int = 3) -> int:", "    return a + b", 'result("g", g(x))']),
    ("nested-def-varargs", "observe", ["def g(*a: int) -> int:", "    return 1", 'result("g", g(x, x))']),
    ("nested-def-kwonly", "observe", ["def g(a: int, *, b: int) -> int:", "    return a - b", 'result("g", g(x, b=1))']),
    ("nested-def-posonly", "observe", ["def g(a: int, /, b: int) -> int:", "    return a - b", 'result("g", g(x, 1))']),
    ("nested-def-decorator", "observe", ["def twice(f):", "    return f", "@twice", "def g(a: int) -> int:", "    return a + 1", 'result("g", g(x))']),
    ("nested-def-missing-return-annotation", "observe", ["def g(a: int):", "    return a + 1", 'result("g", g(x))']),
    ("global-stmt", "observe", ["global GV", "GV = x + 1", 'result("gv", GV)']),
    ("nonlocal-stmt", "observe", ["y = 1", "def g() -> None:", "    nonlocal y", "    y = 5", "g()", 'result("y", y)']),
    ("del-name", "observe", ["y = x", "del y", "y = 3", 'result("y", y)']),
    ("del-then-use", "observe", ["y = x", "del y", 'result("y", y)']),
    ("assert-true", "observe", ['assert x > 0, "positive"', 'result("a", 1)']),
    ("assert-false", "observe", ['assert x > 5, "big"', 'result("a", 1)']),
    ("raise", "observe", ['result("before", 1)', 'raise ValueError("boom")']),
    ("raise-conditional", "observe", ["if x > 5:", '    raise ValueError("boom")', 'result("after", 1)']),
    ("lambda", "observe", ["g = lambda v: v + 1", 'result("l", g(x))']),
    ("starred-assign", "observe", ["a, *b = (x, 2, 3)", 'result("a", a)']),
    ("starred-in-tuple-display", "observe", ["t = (x, 2)", "u = (*t, 3)", 'result("u", u[2])']),
    ("slice-read", "observe", ["xs = array(x, 2, 3)", "ys = xs[0:2]", 'result("ys", ys[1])']),
    ("slice-write", "observe", ["xs = array(x, 2, 3)", "xs[0:1] = array(9)", 'result("xs", xs[0])']),
    ("f-string", "observe", ['s = f"{x}"', 'result("f", x)']),
    ("dict-display", "observe", ["d = {1: x, 2: 4}", 'result("d", d[1])']),
    ("set-display", "observe", ["st = {x, 2}", 'result("s", 2 in st)']),
    ("list-display", "observe", ["l = [x, 2]", 'result("l", l[0])']),
    ("list-comprehension", "observe", ["l = [i + x for i in range(2)]", 'result("l", l[1])']),
    ("dict-comprehension", "observe", ["d = {i: i + x for i in range(2)}", 'result("d", d[1])']),
    ("set-comprehension", "observe", ["st = {i for i in range(2)}", 'result("s", 1 in st)']),
    ("generator-expression", "observe", ["g = (i + x for i in range(2))", 'result("g", sum(g))']),
    ("array-comprehension-with-if", "observe", ["ys = array(i for i in range(4) if i != x)", 'result("n", len(ys))']),
    ("yield", "must-reject", ["yield x"]),
    ("yield-from", "must-reject", ["yield from (x, 1)"]),
    ("await", "must-reject", ["y = await x"]),
    ("match", "observe", ["match x:", "    case 1:", '        result("m", 1)', "    case _:", '        result("m", 0)']),
    ("chained-assignment", "observe", ["a = b = x + 1", 'result("a", a)', 'result("b", b)']),
    ("type-alias", "observe", ["type I = int", "y: I = x", 'result("y", y)']),
    ("class-in-function", "observe", ["class K:", "    v = 3", 'result("k", K.v)']),
    ("import-in-function", "observe", ["import math", 'result("m", math.floor(2.5) + x)']),
    ("print-call", "observe", ["print(x)", 'result("p", x)']),
    ("operator-is", "observe", ['result("is", x is x)']),
    ("operator-in", "observe", ['result("in", x in (1, 2))']),
    ("operator-not-in", "observe", ['result("in", x not in (1, 2))']),
    ("operator-matmul", "observe", ['result("mm", x @ x)']),
    ("augassign-floordiv", "observe", ["y = x + 9", "y //= 2", 'result("y", y)']),
    ("augassign-pow", "observe", ["y = x", "y **= 2", 'result("y", y)']),
    ("augassign-shift", "observe", ["y = x", "y <<= 2", 'result("y", y)']),
    ("augassign-bitand", "observe", ["y = x + 2", "y &= 6", 'result("y", y)']),
    ("annotation-without-value", "observe", ["y: int", "y = x", 'result("y", y)']),
    ("bare-expression-statement", "observe", ["x + 1", 'result("x", x)']),
    ("expression-statement-call", "observe", ["sub(x, 1)", 'result("x", x)']),
    ("pass-and-ellipsis", "observe", ["pass", "...", 'result("x", x)']),
    ("string-statement", "observe", ['"doc"', 'result("x", x)']),
    ("tuple-target-in-for", "observe", ["for a, b in array((x, 1), (2, 3)):", '    result("ab", a * 10 + b)']),
    ("nested-tuple-unpack", "observe", ["(a, b), d = (x, 2), 3", 'result("abd", a * 100 + b * 10 + d)']),
    ("walrus-in-condition", "observe", ["if (y := x + 1) > 3:", '    result("y", y)', 'result("y2", y)']),
    ("conditional-expression", "observe", ['result("c", 1 if x > 3 else 2)']),
    ("struct-field-assign", "observe", ["p = P(x, 2)", "p.u = 9", 'result("u", p.u)']),
    ("return-value-in-none-function", "observe", ["if x > 5:", "    return", 'result("r", 1)']),
    ("complex-literal", "observe", ["z = 2j", 'result("x", x)']),
    ("bytes-literal", "observe", ['z = b"ab"', 'result("x", x)']),
    ("none-comparison", "observe", ['result("n", x is None)']),
    ("unary-not-on-int", "observe", ['result("n", not x)']),
    ("bool-and-on-ints", "observe", ['result("n", x and 5)']),
    ("int-truthiness-in-if", "observe", ["if x - 1:", '    result("t", 1)', "else:", '    result("t", 0)']),
    ("async-for", "must-reject", ["async for i in range(2):", "    pass"]),
    ("async-with", "must-reject", ["async with x as y:", "    pass"]),
]

# loop `else` clauses under every shape of loop body (falls through / never falls through / mixed)
_LOOP_BODIES = {
    "tail-continue": ["    i += 1", "    continue"],
    "search-break-or-continue": ["    if i == x:", "        break", "    else:", "        i += 1", "        continue"],
    "return-or-break": ["    if x > 5:", "        return", "    break"],
    "always-break": ["    i += 1", "    break"],
    "always-return": ["    return"],
    "nested-loop-break": ["    i += 1", "    for j in range(2):", "        break"],
}
for _n, _b in _LOOP_BODIES.items():
    CONSTRUCTS.append((f"while-else:{_n}", "observe", ["i = 0", "while i < 3:", *_b, "else:", '    result("else", i)', 'result("after", i)']))
    CONSTRUCTS.append((f"for-else:{_n}", "observe", ["i = 0", "for _q in range(3):", *_b, "else:", '    result("else", i)', 'result("after", i)']))

# int-valued expression constructs in every expression POSITION (the checker treats synthesising and
# checking positions with different code): (name, setup lines, expression)
_EXPRS = [
    ("keyword-args", [], "sub(b=1, a=x)"),
    ("keyword-args-mixed", [], "sub(x, b=2)"),
    ("keyword-args-surplus", [], "sub(x, 1, z=3)"),
    ("keyword-args-overloaded-range", [], "len(range(0, 10, step=5))"),
    ("keyword-args-default", [], "dflt(x, b=1)"),
    ("call-star-args", ["t = (x, 2)"], "sub(*t)"),
    ("call-star-star-kwargs", [], 'sub(**{"a": x, "b": 2})'),
    ("lambda-call", [], "(lambda v: v + 1)(x)"),
    ("await", [], "(await x)"),
    ("yield", [], "(yield x)"),
    ("starred-in-tuple-display", ["t = (x, 2)"], "(*t, 3)[2]"),
    ("slice-read", ["xs = array(x, 2, 3)"], "xs[0:2][1]"),
    ("dict-display", [], "{1: x, 2: 4}[1]"),
    ("list-comprehension", [], "[i + x for i in range(2)][1]"),
    ("generator-sum", [], "sum(i + x for i in range(2))"),
    ("f-string-len", [], 'len(f"{x}")'),
    ("operator-matmul", [], "x @ x"),
    ("bool-and-on-ints", [], "(x and 5)"),
    ("bool-or-on-ints", [], "(x - 1 or 4)"),
]
_POSITIONS = {
    "annassign": lambda e: ["y: int = " + e, 'result("y", y)'],
    "return-value": lambda e: ["def g(x: int) -> int:", "    return " + e, 'result("g", g(x))'],
    "call-argument": lambda e: [f'result("a", sub({e}, 1))'],
    "condition": lambda e: [f"if {e} > 3:", '    result("c", 1)', "else:", '    result("c", 0)'],
    "annotated-tuple": lambda e: [f"t2: tuple[int, int] = ({e}, 1)", 'result("t", t2[0])'],
    "struct-argument": lambda e: [f"p = P({e}, 2)", 'result("u", p.u)'],
    "augassign": lambda e: ["y = 1", "y += " + e, 'result("y", y)'],
    "operand": lambda e: [f'result("o", 1 + {e})'],
}
for _n, _setup, _e in _EXPRS:
    for _pn, _pf in _POSITIONS.items():
        _kind = "must-reject" if _n in ("await", "yield") else "observe"
        CONSTRUCTS.append((f"{_n}@{_pn}", _kind, [*_setup, *_pf(_e)]))

# CARDINALITY x POSITION of optional clauses inside list-valued syntax: a rejection written for "the"
# default / "the" item / "the" keyword may only look at the first, the last or a list of length one.
import itertools as _it

# default values: k parameters, the last d of them with defaults whose evaluation is observable in
# CPython at definition time (defaults are evaluated when the `def` statement runs)
for _k in (1, 2, 3):
    for _d in range(1, _k + 1):
        _ps = [f"p{i}: int" + (f" = note({i})" if i >= _k - _d else "") for i in range(_k)]
        _call = ", ".join(["x"] * _k)
        CONSTRUCTS.append((f"defaults:{_d}-of-{_k}", "observe",
                           [f"def g({', '.join(_ps)}) -> int:", f"    return {' + '.join(f'p{i}' for i in range(_k))}",
                            f'result("g", g({_call}))']))
        CONSTRUCTS.append((f"defaults-omitted-at-call:{_d}-of-{_k}", "observe",
                           [f"def g({', '.join(_ps)}) -> int:", f"    return {' + '.join(f'p{i}' for i in range(_k))}",
                            f'result("g", g({", ".join(["x"] * (_k - _d))}))']))
for _d in (1, 2):
    CONSTRUCTS.append((f"kwonly-defaults:{_d}", "observe",
                       [f"def g(a: int, *, {', '.join(f'k{i}: int = note({i})' for i in range(_d))}) -> int:", "    return a", 'result("g", g(x))']))
# decorators on nested functions: 1..3, evaluated (observably) at definition time
for _k in (1, 2, 3):
    CONSTRUCTS.append((f"decorators:{_k}", "observe",
                       [*(f"@deco_n(note({i}))" for i in range(_k)), "def g(a: int) -> int:", "    return a + 1", 'result("g", g(x))']))
# keyword arguments: c keywords, at the end of 0..2 positional arguments
for _npos, _nkw in _it.product((0, 1, 2), (1, 2, 3)):
    if _npos + _nkw <= 3:
        _names = ["a", "b", "c"]
        _args = ["x"] * _npos + [f"{_names[i]}={i + 2}" for i in range(_npos, _npos + _nkw)]
        CONSTRUCTS.append((f"keywords:{_npos}-positional-{_nkw}-keyword", "observe", [f'result("k", sub3({", ".join(_args)}))']))
        # ... and with surplus keywords on top of a complete positional call
        CONSTRUCTS.append((f"keywords-surplus:{_nkw}", "observe",
                           [f'result("k", sub3(x, 1, 2, {", ".join(f"z{i}={i}" for i in range(_nkw))}))']))
# `as` clauses of modifier items: every non-empty subset of positions in lists of 1..3 items
_MODS = ["dagger", "power(2)", "control(cq)"]
for _n in (1, 2, 3):
    for _items in _it.permutations(_MODS, _n):
        for _mask in range(1, 2 ** _n):
            _its = [it + (f" as w{i}" if _mask >> i & 1 else "") for i, it in enumerate(_items)]
            _nm = "+".join(it.split("(")[0] for it in _items) + ":as@" + "".join(str(i) for i in range(_n) if _mask >> i & 1)
            CONSTRUCTS.append((f"with-as:{_nm}", "must-reject",
                               ["cq = qubit()", "w0 = 0", "w1 = 0", "w2 = 0",
                                f"with {', '.join(_its)}:", "    pass", "discard(cq)", 'result("w", w0 + w1 + w2)']))
# chained assignment with 2..3 targets, delete / global with several names, several except handlers,
# several generators / conditions in a comprehension
CONSTRUCTS += [
    ("chained-assignment:3", "observe", ["a = b = d = x + 1", 'result("a", a)', 'result("b", b)', 'result("d", d)']),
    ("chained-assignment:tuple-and-name", "observe", ["t = (a, b) = (x, 2)", 'result("a", a)', 'result("t", t[1])']),
    ("del-two-names-then-use-second", "observe", ["y = x", "z = x", "del y, z", 'result("z", z)']),
    ("del-two-names-then-use-first", "observe", ["y = x", "z = x", "del z, y", 'result("z", z)']),
    ("try-two-handlers", "observe", ["try:", '    result("try", 1)', "except ValueError:", '    result("exc", 2)', "except Exception:", '    result("exc", 3)']),
    ("comprehension-two-generators", "observe", ["ys = array(i + j for i in range(2) for j in range(3))", 'result("n", len(ys))']),
    ("comprehension-two-conditions", "observe", ["ys = array(i for i in range(6) if i != x if i != 2)", 'result("n", len(ys))']),
    ("starred-call-args:middle", "observe", ["t = (x, 2)", 'result("s", sub3(1, *t))']),
    ("starred-call-args:two", "observe", ["t = (x,)", "u = (2, 3)", 'result("s", sub3(*t, *u))']),
    ("global-two-names", "observe", ["global GV, GW", "GW = x + 1", 'result("gw", GW)']),
    ("return-with-several-values-in-none-function", "observe", ["if x > 5:", "    return 1, 2", 'result("r", 1)']),
    ("annotated-assignment-to-tuple-element", "observe", ["t = (x, 2)", "t[0]: int = 5", 'result("t", t[0])']),
    ("augmented-assignment-to-tuple-element", "observe", ["t = (x, 2)", "t[0] += 5", 'result("t", t[0])']),
    ("assert-with-side-effect-message", "observe", ['assert x > 5, note(1)', 'result("a", 1)']),
    ("lambda-default", "observe", ["g = lambda v, w=note(1): v + w", 'result("l", g(x))']),
    ("nested-def-annotation-evaluated", "observe", ["def g(a: int, b: 'int' = 3) -> 'int':", "    return a + b", 'result("g", g(x, 1))']),
]

# keyword arguments on every KIND of callee (each kind of callee parses / checks its arguments with its own code):
# user functions are covered above; here the special forms, builtins with custom checkers, constructors,
# methods, function values, gates and the modifiers of `with` items.  Guppy has no keyword arguments, so
# each of these must be rejected (in CPython every one of these calls raises TypeError or has no meaning).
_KW_EXPRS = {
    "comptime": "comptime(1, {kw})", "py": "py(1, {kw})", "len": "len(array(1, 2), {kw})", "int": "int(x, {kw})", "abs": "abs(x, {kw})",
    "struct-constructor": "P(x, 2, {kw}).u", "nat": "int(nat(3, {kw}))", "range": "len(range(3, {kw}))", "array": "array(1, 2, {kw})[0]",
    "function-value": "(sub)(x, 1, {kw})", "float": "int(float(x, {kw}))", "bool": "int(bool(x, {kw}))", "max": "max(x, 1, {kw})", "pow": "pow(x, 2, {kw})",
    "divmod": "divmod(x, 2, {kw})[0]", "min": "min(x, 2, {kw})", "local-function-value": "fv(x, 1, {kw})",
}
_KW_STMTS = {
    "result": 'result("t", x, {kw})', "panic": 'panic("boom", {kw})', "exit": 'exit("bye", 1, {kw})', "barrier": "barrier(cq, {kw})",
    "gate": "h(cq, {kw})", "measure": "measure(qubit(), {kw})", "qubit": "discard(qubit({kw}))",
    "with-dagger": "with dagger({kw}):\n    h(cq)", "with-control": "with control(dq, {kw}):\n    h(cq)", "with-power": "with power(2, {kw}):\n    h(cq)",
    "with-control-2": "with control(dq, eq, {kw}):\n    h(cq)", "with-power-only": "with power({kw}):\n    h(cq)",
    "with-second-item": "with dagger, power(2, {kw}):\n    h(cq)", "with-third-item": "with dagger, control(dq), power(2, {kw}):\n    h(cq)",
}
_KWS = {"one": "k=note(1)", "two": "k=note(1), j=note(2)", "double-star-empty": "**{}", "double-star": '**{"k": 1}'}
for _cn, _ce in _KW_EXPRS.items():
    for _kn, _kw in _KWS.items():
        CONSTRUCTS.append((f"keywords-on:{_cn}:{_kn}", "must-reject", ["fv = sub", f'result("k", {_ce.format(kw=_kw)})']))
for _cn, _ce in _KW_STMTS.items():
    for _kn, _kw in _KWS.items():
        if _cn == "with-power-only" and _kn != "one":
            continue
        _kw2 = "n=2" if _cn == "with-power-only" else _kw
        CONSTRUCTS.append((f"keywords-on:{_cn}:{_kn}", "must-reject",
                           ["cq = qubit()", "dq = qubit()", "eq = qubit()", *_ce.format(kw=_kw2).split("\n"), "discard(cq)", "discard(dq)", "discard(eq)"]))

# control-flow expressions (walrus, conditional expression, and / or, comparison chain) cannot be lowered inside a
# comprehension; at every DEPTH (directly / inside a call argument / two calls deep) and in every PART of the
# comprehension (element, guard, iterable) they must be rejected or take effect
_CF = {"walrus": "(y := note(5))", "ifexp": "(note(1) if c else note(2))", "and": "int(c and note(1) > 0)", "chain": "int(0 < note(1) < 2)"}
_DEPTH = {"direct": "{e}", "call-argument": "sub({e}, 0)", "nested-call-argument": "sub(sub({e}, 0), 0)", "method-argument": "P({e}, 0).u",
          "operand-of-call-argument": "sub(1 + {e}, 1)"}
_PARTS = {"element": "array({e} + i for i in range(2))", "guard": "array(i for i in range(3) if {e} > 0)",
          "iterable": "array(i for i in range({e}))", "second-iterable": "array(i + j for i in range(2) for j in range({e}))"}
for (_cn, _ce), (_dn, _de), (_pn, _pe) in _it.product(_CF.items(), _DEPTH.items(), _PARTS.items()):
    CONSTRUCTS.append((f"comprehension-control-flow:{_cn}:{_dn}:{_pn}", "observe",
                       ["y = 100", "ys = " + _pe.format(e=_de.format(e=_ce)), 'result("y", y)', 'result("n", len(ys))',
                        "for v in ys:", '    result("v", v)']))

PLACEMENTS = {
    "body": lambda ls: ls,
    "in-if": lambda ls: ["if c:"] + ["    " + l for l in ls],
    "in-loop": lambda ls: ["for _k in range(1):"] + ["    " + l for l in ls],
    "in-nested-function": lambda ls: ["def inner(x: int, c: bool) -> int:"] + ["    " + l for l in ls] + ["    return x", "x = inner(x, c)"],
}


def source(lines, placement, asyncdef=False):
    body = PLACEMENTS[placement](lines) + ['result("end", x)']
    return HEADER + "\n@guppy\ndef main(x: int, c: bool) -> None:\n" + "\n".join("    " + l for l in body) + "\n"


class _Oracle(pyoracle.Oracle):
    def namespace(self):
        ns = super().namespace()
        ns.update({"Exception": Exception, "ValueError": ValueError, "sum": sum, "len": len, "print": lambda *a: None,
                   "range": range, "__build_class__": __build_class__, "__import__": __import__, "open": open})
        return ns


def _py(code, args):
    o = _Oracle(5000)
    try:
        st, v, tr = o.run(code, "main", args)
    except BaseException as e:  # noqa: BLE001 - any exception is an observable stop
        return "raise", type(e).__name__, o.trace
    if st == "undefined":
        return "raise", str(v), o.trace
    return st, v, tr


def _norm(ev):
    out = []
    for e in ev:
        if e[0] == "result":
            out.append((e[1], e[2]))
    return out


def eval_item(item):
    name, kind, lines, placement = item
    src = source(lines, placement)
    res = {"outcome": "", "dis": None, "title": ""}
    try:
        compile(gload.PRELUDE + src, "<c32>", "exec")
    except SyntaxError as e:
        res["outcome"] = "python-syntax-error"      # not valid Python in this placement (e.g. return/yield rules)
        res["title"] = str(e)
        return res
    o, mod = gload.run_src(src)
    if o.kind == "error":
        res["outcome"] = "rejected"
        res["title"] = o.title
        return res
    if o.kind == "crash":
        res["outcome"] = "crash"
        res["dis"] = f"compiler crashed instead of a Guppy error: {o.exc}"
        return res
    res["outcome"] = "accepted"
    if kind == "must-reject":
        res["dis"] = ("accepted although it cannot take effect (no generator / coroutine / context manager protocol, no keyword "
                      "arguments in Guppy): it was dropped silently")
        return res
    try:
        code = pyoracle.prepare(gload.PRELUDE + src)
    except SyntaxError as e:
        res["dis"] = f"accepted by guppy but not runnable Python after stripping decorations: {e}"
        return res
    h = o.package.modules[0]
    for x in (1, 7):
        st, val, trace = _py(code, [x, True])
        r = hugrvm.run(h, "main", [hugrvm.to_vm(x), True], step_budget=200000)
        if r.status in ("unsupported", "invariant"):
            raise RuntimeError(f"hugrvm: {r.status} {r.detail}\n{src}")
        want, got = _norm(trace), _norm(r.events)      # status "budget" = still running: differs from CPython below
        if st == "raise" or st == "panic":
            if r.status == "ok" or got != want:
                res["dis"] = f"x={x}: CPython stops ({val}) after {want}; compiled program: {r.status} with {got}"
                return res
        elif r.status != "ok" or got != want:
            res["dis"] = f"x={x}: CPython trace {want}; compiled program: {r.status} {r.panic} with {got}"
            return res
    return res


def run(ctx):
    import guppylang_internals.experimental as ex
    ex.enable_experimental_features()
    if not ctx.quick:
        # thorough: every ordered composition of two different placements as well (construct inside an if inside a loop, ...)
        base = dict(PLACEMENTS)
        for (n1, f1), (n2, f2) in __import__("itertools").permutations(base.items(), 2):
            PLACEMENTS[f"{n2}>{n1}"] = (lambda ls, f1=f1, f2=f2: f2(f1(ls)))
    items = [(n, k, ls, p) for (n, k, ls) in CONSTRUCTS for p in PLACEMENTS]
    res = ctx.pmap(eval_item, items, chunk=6)
    acc = rej = syn = 0
    titles = {}
    accepted = []
    for it, r in zip(items, res):
        if r["outcome"] == "python-syntax-error":
            syn += 1
            continue
        if r["outcome"] == "rejected":
            rej += 1
            titles[r["title"]] = titles.get(r["title"], 0) + 1
        elif r["outcome"] == "accepted":
            acc += 1
            if it[3] == "body":
                accepted.append(it[0])
        if r["dis"]:
            cls = "compiler-crash" if r["outcome"] == "crash" else "accepted-but-not-python-behaviour"
            ctx.violation(f"{cls}:{it[0]}", f"construct `{it[0]}` ({it[3]}): {r['dis']}", {"item": [it[0], it[1], it[2], it[3]]})
    return {
        "evaluations": len(items) - syn, "distinct_nontrivial": acc + rej,
        "rule": f"one host per Python statement/expression kind, optional clause, cardinality and position ({len(CONSTRUCTS)} constructs) x "
                f"{len(PLACEMENTS)} placements; non-trivial = valid Python "
                "in that placement, decided as rejected or accepted-and-compared with CPython on x in {1, 7}",
        "samples": [{"construct": n, "lines": ls} for (n, k, ls) in CONSTRUCTS[:4]],
        "constructs": len(CONSTRUCTS), "accepted": acc, "rejected": rej, "not_valid_python_in_placement": syn,
        "accepted_constructs_in_body": accepted, "rejection_titles": titles,
    }


def replay(ctx, item):
    import guppylang_internals.experimental as ex
    ex.enable_experimental_features()
    if ">" in item["item"][3] and item["item"][3] not in PLACEMENTS:
        n2, n1 = item["item"][3].split(">")
        f1, f2 = PLACEMENTS[n1], PLACEMENTS[n2]
        PLACEMENTS[item["item"][3]] = (lambda ls: f2(f1(ls)))
    r = eval_item(tuple(item["item"]))
    return {"violation": bool(r["dis"]), "result": r, "source": source(item["item"][2], item["item"][3])}
