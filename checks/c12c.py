"""C12 part (c) — calls checked against an EXPECTED type, with const parameters fixed from two sides.

A generic function whose result type mentions a type variable that no argument determines can
only be called where the context supplies the type (`check_call`'s fallback: unify the result
type with the expected type first, then check the arguments).  If the function also has
`@comptime` arguments, their implicit const parameters may occur in the result type as well,
so they are solved twice: from the expected type and from the argument.  Product of
  function   mk[T](n @comptime) -> array[T, n] | mkp[T](n, m @comptime) -> tuple[array[T, n], array[T, m]] |
             mk2[T, S](n @comptime) -> tuple[array[T, n], S] | rep[T](x: T, n @comptime) -> array[T, n] (control:
             synthesisable) | mkb[T](b: bool, n @comptime) -> tuple[array[T, n], bool]
  arguments  every nat literal in 1..3 per comptime position (bool: True / False), also through a comptime
             variable of the module
  expected   the result type with T / S := int | bool and every length in 1..3 per array
  position   annotated assignment | return value | argument of a function that takes the expected type
Oracle: the 25-line unifier of part (b): bind the const parameters to the argument values, unify the
result type with the expected type: unifiable <=> the call must be accepted (and validate).
"""
from __future__ import annotations

import itertools

from checks.c12b import INT, BOOL, T, S, arr, tup, show, unify

N, M = ("len", "n"), ("len", "m")        # placeholders for const parameters inside array types

FUNCS = {
    # name -> (type params, [(param text, kind)], result type)
    "mk": ("[T]", [("n: nat @comptime", "n")], arr(T, N)),
    "mkp": ("[T]", [("n: nat @comptime", "n"), ("m: nat @comptime", "m")], tup(arr(T, N), arr(T, M))),
    "mk2": ("[T, S]", [("n: nat @comptime", "n")], tup(arr(T, N), S)),
    "rep": ("[T]", [("x: T", "x"), ("n: nat @comptime", "n")], arr(T, N)),
    "mkb": ("[T]", [("b: bool", "b"), ("n: nat @comptime", "n")], tup(arr(T, N), BOOL)),
}
LENS = (1, 2, 3)
DECLS = "K2 = 2\n\n" + "".join(
    f"@guppy.declare\ndef {name}{tp}({', '.join(p for p, _ in params)}) -> {{{name}}}: ...\n\n" for name, (tp, params, _) in FUNCS.items())


def _show(t):
    if t[0] == "array":
        ln = t[2][1] if isinstance(t[2], tuple) else t[2]
        return f"array[{_show(t[1])}, {ln}]"
    if t[0] == "tuple":
        return "tuple[" + ", ".join(_show(x) for x in t[1:]) + "]"
    return show(t)


def _bind(t, env):
    if t[0] == "array":
        return ("array", _bind(t[1], env), env[t[2][1]] if isinstance(t[2], tuple) else t[2])
    if t[0] == "tuple":
        return ("tuple", *[_bind(x, env) for x in t[1:]])
    return t


def _expected_types(res):
    """All ground instances of the result type: variables := int | bool, every length 1..3."""
    if res[0] == "array":
        return [("array", e, k) for e in _expected_types(res[1]) for k in LENS]
    if res[0] == "tuple":
        return [("tuple", *c) for c in itertools.product(*[_expected_types(x) for x in res[1:]])]
    if res[0] == "var":
        return [INT, BOOL]
    return [res]


def items():
    out = []
    for name, (tp, params, res) in FUNCS.items():
        choices = []
        for _, kind in params:
            if kind == "x":
                choices.append([("1", INT), ("True", BOOL)])
            elif kind == "b":
                choices.append([("True", None), ("False", None)])
            else:
                choices.append([(str(k), k) for k in LENS] + [("comptime(K2)", 2)])
        for args in itertools.product(*choices):
            for exp in _expected_types(res):
                for pos in ("annotated-assignment", "return", "argument"):
                    out.append((name, [list(a) for a in args], exp, pos))
    return out


def program(name, args, exp, pos):
    decls = DECLS
    for fn, (_, _, res) in FUNCS.items():
        decls = decls.replace("{" + fn + "}", _show(res).replace("('len', 'n')", "n"))
    call = f"{name}({', '.join(a for a, _ in args)})"
    e = _show(exp)
    own = " @owned" if "array" in e else ""
    if pos == "annotated-assignment":
        body = f"@guppy\ndef main() -> None:\n    v: {e} = {call}\n"
    elif pos == "return":
        body = f"@guppy\ndef main() -> {e}:\n    return {call}\n"
    else:
        body = f"@guppy.declare\ndef eat(v: {e}{own}) -> None: ...\n\n@guppy\ndef main() -> None:\n    eat({call})\n"
    return decls + body


def _tt(x):
    return tuple(_tt(y) for y in x) if isinstance(x, list) else x


def run_item(item):
    from vlib import gload
    name, args, exp, pos = item
    exp = _tt(exp)
    tp, params, res = FUNCS[name]
    env = {}
    s = {}
    for (ptext, kind), (atext, aval) in zip(params, args):
        if kind in ("n", "m"):
            env[kind] = aval
        elif kind == "x":
            s = unify(T, _tt(aval), s)
    s = unify(_bind(res, env), exp, s) if s is not None else None
    exists = s is not None
    o, mod = gload.run_src(program(name, args, exp, pos))
    try:
        if o.kind == "crash":
            return ("crash", exists, o.exc[:160])
        if o.kind == "error":
            return ("rejected", exists, o.title)
        bad = gload.validate(o.package)
        return ("invalid-hugr" if bad else "accepted", exists, "")
    finally:
        if mod is not None:
            gload.unload(mod)


def run_part(ctx):
    its = items()
    res = ctx.pmap(run_item, its, chunk=32)
    acc = rej = 0
    for it, (got, exists, detail) in zip(its, res):
        name, args, exp, pos = it
        desc = f"{name}({', '.join(a for a, _ in args)}) checked against {_show(_tt(exp))} [{pos}]"
        if got == "crash":
            ctx.violation(f"c:crash:{name}:{pos}", f"{desc}: compiler crashed: {detail}", {"part": "c", "item": it})
        elif got == "invalid-hugr":
            ctx.violation(f"c:invalid-hugr:{name}:{pos}", f"{desc}: accepted, HUGR does not validate", {"part": "c", "item": it})
        elif got == "accepted":
            acc += 1
            if not exists:
                ctx.violation(f"c:accepted-without-instantiation:{name}:{pos}",
                              f"{desc}: accepted although no value of the const / type parameters makes the result type equal the expected type",
                              {"part": "c", "item": it})
        else:
            rej += 1
            if exists:
                ctx.violation(f"c:rejected-although-instantiation-exists:{name}:{pos}", f"{desc}: rejected ({detail}) although an instantiation exists",
                              {"part": "c", "item": it})
    return {"c_expected_type_calls": len(its), "c_accepted": acc, "c_rejected": rej}


def replay(ctx, item):
    it = item["item"]
    got, exists, detail = run_item((it[0], it[1], it[2], it[3]))
    return {"violation": got in ("crash", "invalid-hugr") or ((got == "accepted") != exists), "got": got, "instantiation_exists": exists,
            "detail": detail, "source": program(it[0], [tuple(a) for a in it[1]], _tt(it[2]), it[3])}
