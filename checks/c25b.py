"""C25 part B — values captured by a modifier block.

A `with` body may use values of the enclosing function.  Non-copyable ones have to be
threaded through the generated body function and handed back.  Product of
  modifier lists      dagger | control(c) | power(2) | control(c), power(2) | dagger, control(c)
  captured value      parameter or owned LOCAL of type qubit / array[qubit, 2] / array[float, 2] (affine) /
                      struct with a qubit / struct with an affine array / float (copyable)
  use after the block the captured value is used again after the block | never again
Oracle: the program is accepted (nothing in it is forbidden in a unitary context: the callees carry all
flags, no assignment or subscript occurs inside the block), the HUGR validates, and every captured
non-copyable value that is used after the block is an output of the CallIndirect of the block.
"""
from __future__ import annotations

import itertools

HEADER = (
    "from guppylang import guppy, qubit, array\n"
    "from guppylang.std.builtins import nat, owned\n"
    "from guppylang.std.quantum import h, x, cx, rz, discard, discard_array\n"
    "from guppylang.std.angles import angle\n\n"
    "@guppy.struct\nclass SQ:\n    q: qubit\n    k: int\n\n"
    "@guppy.struct\nclass SA:\n    ws: array[float, 2]\n    k: int\n\n"
    "@guppy.declare(dagger=True, control=True, power=True)\ndef use_q(t: qubit, u: qubit) -> None: ...\n\n"
    "@guppy.declare(dagger=True, control=True, power=True)\ndef use_qs(t: qubit, us: array[qubit, 2]) -> None: ...\n\n"
    "@guppy.declare(dagger=True, control=True, power=True)\ndef use_ws(t: qubit, ws: array[float, 2]) -> None: ...\n\n"
    "@guppy.declare(dagger=True, control=True, power=True)\ndef use_sq(t: qubit, s: SQ) -> None: ...\n\n"
    "@guppy.declare(dagger=True, control=True, power=True)\ndef use_sa(t: qubit, s: SA) -> None: ...\n\n"
    "@guppy.declare(dagger=True, control=True, power=True)\ndef use_f(t: qubit, f: float) -> None: ...\n\n"
    "@guppy.declare\ndef eat_ws(ws: array[float, 2] @owned) -> None: ...\n\n"
    "@guppy.declare\ndef eat_sa(s: SA @owned) -> None: ...\n\n"
)
MODS = {"dagger": "dagger", "control": "control(c)", "power": "power(2)", "control+power": "control(c), power(2)",
        "dagger+control": "dagger, control(c)"}
# kind -> (parameter declaration, local definition, call in the body, use after the block, disposal at the end)
VALUES = {
    "qubit": ("v: qubit", "v = qubit()", "use_q(q, v)", "x(v)", "discard(v)"),
    "qubit-array": ("v: array[qubit, 2]", "v = array(qubit(), qubit())", "use_qs(q, v)", "x(v[0])", "discard_array(v)"),
    "affine-array": ("v: array[float, 2]", "v = array(0.5, 1.5)", "use_ws(q, v)", "eat_ws(v)", None),
    "struct-with-qubit": ("v: SQ", "v = SQ(qubit(), 1)", "use_sq(q, v)", "x(v.q)", "discard(v.q)"),
    "struct-with-affine-array": ("v: SA", "v = SA(array(0.5, 1.5), 1)", "use_sa(q, v)", "eat_sa(v)", None),
    "float": ("v: float", "v = 0.25", "use_f(q, v)", "use_f(q, v)", None),
}


def program(item):
    mod, kind, origin, after = item
    pdecl, ldef, call, use_after, dispose = VALUES[kind]
    params = ["q: qubit", "c: qubit"] + ([pdecl] if origin == "parameter" else [])
    lines = ["@guppy", f"def main({', '.join(params)}) -> None:"]
    if origin == "local":
        lines.append("    " + ldef)
    lines += [f"    with {MODS[mod]}:", "        " + call]
    consumed = False
    if after:
        if use_after.startswith("eat_") and origin == "parameter":
            lines.append("    " + call)              # a borrowed parameter cannot be consumed: lend it once more
        else:
            lines.append("    " + use_after)
            consumed = use_after.startswith("eat_")
    if origin == "local" and dispose and not consumed:
        lines.append("    " + dispose)
    lines.append("    x(q)")
    return HEADER + "\n".join(lines) + "\n"


def items():
    return [(m, k, o, a) for m, k, o, a in itertools.product(MODS, VALUES, ("parameter", "local"), (True, False))]


def run_item(item):
    from guppylang_internals.experimental import enable_experimental_features
    from vlib import gload
    enable_experimental_features()
    o, mod = gload.run_src(program(item), fn="main", compile=True, with_prelude=False)
    try:
        if o.kind == "crash":
            return ("crash", f"[{o.stage}] {o.exc[:200]}")
        if o.kind == "error":
            return ("rejected", f"{o.title}: " + " ".join((o.rendered or "").split())[-220:])
        bad = gload.validate(o.package)
        if bad:
            return ("invalid-hugr", " ".join(bad.split("Stack backtrace")[0].split())[-220:])
        return ("ok", "")
    finally:
        if mod is not None:
            gload.unload(mod)


def run_part(ctx):
    its = items()
    res = ctx.pmap(run_item, its, chunk=8)
    hist = {}
    for it, (got, detail) in zip(its, res):
        hist[got] = hist.get(got, 0) + 1
        if got != "ok":
            m, k, o, a = it
            ctx.violation(f"capture:{got}:{k}:{o}",
                          f"with {MODS[m]}: body lends a captured {o} of kind {k} ({'used' if a else 'not used'} after the block): "
                          f"{got}: {detail}", {"part": "capture", "item": list(it)})
    return {"capture_programs": len(its), "capture_outcomes": hist}


def replay(ctx, item):
    got, detail = run_item(tuple(item["item"]))
    return {"violation": got != "ok", "outcome": got, "detail": detail, "source": program(tuple(item["item"]))}
