"""Round 4: ONE further change ("e") for properties that had no third round.  Usage: mkround4prompts.py C01 C03 ..."""
import json, sys, subprocess, os
ids = sys.argv[1:]
os.makedirs("/tmp/mutshim", exist_ok=True)
for pid in ids:
    t = open(f"/verif/notes/mutshim/prompt_{pid}.txt").read()
    t = (t.replace("produce TWO different, realistic changes (mutants \"a\" and \"b\")", "produce ONE realistic change (mutant \"e\")")
          .replace('(mutants "a" and "b")', '(mutant "e")').replace("For each mutant X in (a, b)", "For the mutant X = e")
          .replace("The two mutants should touch different mechanisms if possible. ", ""))
    prev = []
    for x in ("a", "b", "c", "d"):
        mp = f"/verif/seeded/{pid}-{x}/meta.json"
        if not os.path.exists(mp):
            continue
        m = json.load(open(mp))
        prev.append(f"  - ({', '.join(m.get('files_changed', []))}) " + " ".join(m["summary"].split()))
    t += ("\n\nALREADY DONE BY OTHERS - do not repeat these, and choose a DIFFERENT code site and a different mechanism "
          "(another function, another file anchored above or called from there, another kind of mistake, another program shape / sequence "
          "needed to manifest - think of dimensions nobody has varied yet: who calls, in which mode, at which nesting depth, with which kind "
          "of type or value, after which earlier failure):\n" + "\n".join(prev) + "\n"
          "\nNever run `git stash` (the stash is shared between worktrees); use `git diff > file`, `git checkout -- .` and `git apply`.\n"
          "Be economical: run the repository's tests only for the directories related to your change, at most twice.\n"
          f"If you notice, while working, that the UNMODIFIED sources already violate the property for some input, say so at the end of "
          f"your answer with a minimal reproducer (also saved as a file under /tmp/mut_{pid}/unmodified/) - that is valuable - but do not "
          "use it for your mutant.\n")
    open(f"/tmp/mutshim/prompt7_{pid}.txt", "w").write(t)
    subprocess.run(["git", "-C", "/repo", "worktree", "add", "--detach", f"/tmp/wt/{pid}", "HEAD", "-q"], check=True)
    print(pid, "ok")
