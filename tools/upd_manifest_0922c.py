#!/usr/bin/env python3
"""One-off: refresh manifest_src.json texts after the third mutant round and the follow-up of side remarks."""
import json, os
ROOT = os.path.dirname(os.path.dirname(os.path.abspath(__file__)))
p = os.path.join(ROOT, "tools", "manifest_src.json")
m = json.load(open(p))
c = m["checks"]


def add(pid, field, text):
    if text not in c[pid][field]:
        c[pid][field] = c[pid][field].rstrip() + " " + text


add("C06", "text", "Further families over the same ownership automaton: forms (function values, functions passed on, identity through a call, "
    "barrier / state_result, closure capture), tensor (function tensors over two qubits), arrays (arrays of qubits: element borrow, illegal "
    "element move, whole-array consume, unpacking, comprehension, for-loop), project (projection out of unnamed tuples / structs / arrays), "
    "retype (the variable is re-bound to a classical value).")
add("C09", "text", "If the analysis mutates a stored lattice value in place the explorer falls back to stateless replay for that invocation "
    "instead of stopping.")
add("C10", "text", "Corpus extended by programs with a maybe-undefined / leaked variable used in several blocks, two such variables, closures "
    "capturing several variables, and str-valued comptime instances that each pull a definition into the module; a disagreement between two "
    "explorations of one program in one process is a violation.")
add("C11", "text", "The late pool's nested recursive function is NAMED like a module-level function of the pool.")
add("C12", "text", "Part (b), program level: 3562 calls of declared generic functions (10 signatures repeating type variables inside one "
    "parameter type and across parameters x 15 argument expressions of known ground type + 7 arguments that are themselves calls of generic "
    "functions with an undetermined result type; literal / variable arguments), judged by a 25-line first-order unifier: not unifiable => "
    "rejected; unifiable and determined => accepted with valid HUGR; unifiable but undetermined => either (counted).")
c["C12"]["technique"] = c["C12"]["technique"].rstrip() + "; exhaustive enumeration of program-level generic calls against a small first-order unifier"
add("C16", "text", "Four positions where the operator itself converts its operands to float (true division by one).")
add("C17", "text", "The literal also inside comprehension guards and elements.")
add("C19", "text", "Whole-row assignment in nested arrays.")
add("C21", "text", "Bodies with TWO Python constants over equal-but-distinguishable values (0.0 / -0.0, 1 / 1.0 / True, 0 / False), 1-, 3- and "
    "nested-tuple and None returns.")
add("C23", "text", "Module variants binding the shadowed names to FALSY values; an operation in which the user re-binds a module-level name "
    "between traces.")
add("C24", "text", "Decorations with every flag spelled out (absent ones as False) for contexts and callees; calls through function values; the "
    "call as a LATER argument of a fully flagged callee whose first argument is a qubit; a rejection with the unitary checker's diagnostic for a "
    "reason that does not apply is a violation.")
add("C25", "text", "Part B: 120 programs whose with-body lends a captured parameter or owned LOCAL (qubit, qubit array, affine float array, "
    "structs, float) in five modifier contexts, used / not used after the block: accepted and valid HUGR.")
add("C26", "text", "Execution modes load-arrays (use_arrays=True, several classical registers) and reload-after-edit (the same Circuit object "
    "loaded, compiled, extended, loaded again).")
add("C28", "text", "A simulator with its OWN seed in the alphabet; when run() does not reach the simulator (a result cache) the returned results "
    "must carry this configuration's effective seed. Part B: all histories (depth 3 quick / 4 thorough) of with_name / with_build_dir / "
    "with_verbose / with_build_arg / build on real EmulatorBuilder objects, observing what build() hands to selene_sim.build.")
add("C29", "text", "All sources of a worker share ONE SourceMap and re-register the same file name with new text (edit-and-reload).")
m["notes"] = m["notes"].replace("holds 86 confirmed", "holds 120+ confirmed")
json.dump(m, open(p, "w"), indent=1)
print("ok")
