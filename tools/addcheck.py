#!/usr/bin/env python3
"""tools/addcheck.py ID level engine 'technique' 'text' 'note'  -> updates manifest_src.json + MANIFEST.json"""
import json, sys, os, subprocess
ROOT = os.path.dirname(os.path.dirname(os.path.abspath(__file__)))
p = os.path.join(ROOT, "tools", "manifest_src.json")
m = json.load(open(p))
pid, level, engine, technique, text, note = sys.argv[1:7]
m["checks"][pid] = {"level": level, "engine": engine, "technique": technique, "text": text, "note": note}
for e in m["engines"]:
    if e["name"] == engine and pid not in e["serves_properties"]:
        e["serves_properties"].append(pid)
json.dump(m, open(p, "w"), indent=1)
subprocess.run([sys.executable, os.path.join(ROOT, "tools", "mkmanifest.py")], check=True)
