#!/usr/bin/env python3
"""One-off: refresh manifest_src.json texts after the mutant waves 2/3 (kept for the record)."""
import json, os
ROOT = os.path.dirname(os.path.dirname(os.path.abspath(__file__)))
p = os.path.join(ROOT, "tools", "manifest_src.json")
m = json.load(open(p))
m["hooks"]["source_commits"] = ["83dc47d", "9e3c51f"]
m["hooks"]["enable"] = (m["hooks"]["enable"].split(" Hooks:")[0] +
                        " Hooks: H1 worklist scheduler seam (cfg/analysis.py _VERIF_SCHED), H2 basic-block hash seam (cfg/bb.py _VERIF_BBHASH); "
                        "both inert unless the variable is 1 AND a harness installs a function.")
c = m["checks"]


def add(pid, field, text):
    if text not in c[pid][field]:
        c[pid][field] = c[pid][field].rstrip() + " " + text


c["C10"]["technique"] = ("exhaustive worklist-schedule exploration (hook H1) + exhaustive iteration orders of basic-block sets (hook H2) + "
                         "exhaustive set-iteration-order permutations of name sets via hash seeds (fresh processes)")
add("C10", "text", "(4) 72 programs (the corpus, the competing-candidate programs and 8 rejected programs with 2-3 candidate branches for the "
    "blamed condition) are run under every assignment of hashes to basic blocks through hook H2: all n! permutations for <= 5 hashed blocks, "
    "identity and reversal with <= 1 (quick) / 2 (thorough) transpositions otherwise (~5.5k pipeline runs quick); distinct small hashes make a "
    "CPython set iterate in ascending hash order, so this enumerates the iteration orders of every set of blocks the pipeline builds.")
c["C10"]["note"] = ("Trusted: hook H1 covers every identity-hashed worklist and hook H2 every set of basic blocks (other identity-hashed objects are "
                    "only reached by the sampled part 3); part (3) is sampled, not exhaustive, and says so in the evidence.")
add("C11", "text", "A second phase explores all sequences over a late pool (a NON-capturing recursive nested function, a function whose exit block "
    "is unreachable, its caller) to depth 2 (quick) / 3 (thorough).")
add("C14", "text", "Part 3: 216 modules, each with a copyable-variable generic function and an affine-variable generic function (6 type shapes "
    "each: T, Option[T], tuples, array[T, 2], Option[array[T, 2]]) whose variables share an index but differ in bound, in both call orders and "
    "three arrangements (two functions, swapped binders, local rebinding); each must validate and contain the drops.")
c["C32"]["text"] = c["C32"]["text"].replace("77 host functions", "241 host functions")
add("C32", "text", "Loop else clauses are tried under 6 body shapes (falls through, tail continue, break-or-continue on every path, return-or-break, "
    "always break, always return, nested-loop break) for while and for; 19 int-valued expression constructs (keyword arguments in five variants, "
    "star / double-star arguments, lambda, await / yield, starred display, slices, displays, comprehensions, f-string, @, and / or on ints) are "
    "each placed in 8 expression positions (annotated assignment, return value, call argument, condition, annotated tuple, struct argument, "
    "augmented assignment, operand) because synthesising and checking positions are handled by different code.")
add("C02", "text", "Added operators: a use of a name defined nowhere placed in dead code directly behind a return / break / continue at every "
    "position; literals -1, -3, 7 in place of every numeric literal; postfix forms v[-1], v[-3], v[1] on every name use.")
add("C17", "text", "The literal is also placed in later / nested positions of comptime lists and tuples.")
add("C20", "text", "Division is exercised in both operand orders (angle / int and int-valued b / angle).")
add("C22", "text", "A supplement runs the same model with a single AFFINE object (droppable, not copyable: array[int, 2]) in 15 use / leave-unused cases.")
add("C24", "text", "Callee mixes include generic callees (type-variable, generic array, generic struct parameters).")
add("C25", "text", "Shapes the dataflow tracer cannot follow are not skipped: they are classified through the hugr-core validator or reported as "
    "packed-controls-reach-a-different-output.")
add("C26", "text", "Symbolic circuits have up to 3 symbols.")
add("C27", "text", "Closure mode: with a single pushed value the state is the buffer of priorities, and the search runs to a fixed point (complete "
    "reachable state space) for capacities 7-8 (quick) and 9-10 (thorough) over priority domains of 2-4 values.")
add("C28", "text", "An event records whether two configurations derived from one instance share the simulator object.")
json.dump(m, open(p, "w"), indent=1)
print("ok")
