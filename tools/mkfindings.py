#!/usr/bin/env python3
"""Regenerates the findings tables in DESIGN.md (between <!-- FINDINGS-BEGIN --> and
<!-- FINDINGS-END -->) from known_findings.json, so that the document and the file the checks
read cannot drift apart."""
import json, os, re, subprocess
ROOT = os.path.dirname(os.path.dirname(os.path.abspath(__file__)))
d = json.load(open(os.path.join(ROOT, "known_findings.json")))
fixed, known = [], []
for f in d["findings"]:
    what = " ".join(f["what"].split()).replace("|", "/")
    key = (f.get("key") or f.get("key_regex") or "").replace("|", "\\|")
    if f["status"] == "fixed":
        what = re.sub(r"^fixed: property=\S+ \S+ ", "", what)
        fixed.append((f["property"], f.get("commit", ""), what))
    else:
        known.append((f["property"], key, what))
subj = {}
try:
    out = subprocess.run(["git", "-C", "/repo", "log", "--format=%h %s"], capture_output=True, text=True).stdout
    for line in out.splitlines():
        h, _, s = line.partition(" ")
        subj[h[:7]] = s
except Exception:  # noqa: BLE001
    pass
txt = ["**Repaired in /repo** (one unguarded `fix:` commit each; the check that shows the defect is silent afterwards; the "
       "entry in `known_findings.json` has status `fixed` and suppresses nothing):", "",
       "| property | commit | defect |", "|---|---|---|"]
for p, c, w in sorted(fixed, key=lambda x: (x[0], x[1])):
    txt.append(f"| {p} | {c} | {w} |")
txt += ["", f"{len(fixed)} entries ({len({c for _, c, _ in fixed})} commits).", "",
        "**Recorded as known findings** (genuine, but the repair is not small and safe, or a golden test of the repository pins the "
        "behaviour; the check prints `KNOWN-FINDING` and exits 0; any OTHER violation of the property is still reported):", "",
        "| property | violation key (regex) | what fails |", "|---|---|---|"]
for p, k, w in sorted(known):
    txt.append(f"| {p} | `{k}` | {w} |")
txt += ["", f"{len(known)} entries."]
p = os.path.join(ROOT, "DESIGN.md")
s = open(p).read()
block = "<!-- FINDINGS-BEGIN -->\n" + "\n".join(txt) + "\n<!-- FINDINGS-END -->"
if "<!-- FINDINGS-BEGIN -->" not in s:
    raise SystemExit("markers missing in DESIGN.md")
s = re.sub(r"<!-- FINDINGS-BEGIN -->.*<!-- FINDINGS-END -->", lambda _m: block, s, flags=re.S)
open(p, "w").write(s)
print(len(fixed), "fixed,", len(known), "known")
