#!/usr/bin/env python3
"""One-off: refresh manifest_src.json texts after the third round of seeded changes and its side remarks."""
import json, os
ROOT = os.path.dirname(os.path.dirname(os.path.abspath(__file__)))
p = os.path.join(ROOT, "tools", "manifest_src.json")
m = json.load(open(p))
c = m["checks"]


def add(pid, field, text):
    if text not in c[pid][field]:
        c[pid][field] = c[pid][field].rstrip() + " " + text


add("C02", "text", "Inserted statements also cover comprehensions whose iterable names their own target (undefined / maybe defined / "
    "defined in an earlier block), comptime values whose shape disagrees with the annotation, and delayed (string) annotations that "
    "are not exactly one expression.")
add("C05", "text", "Contexts with a NESTED subscript place that is lent to a callee / read, both indices effectful.")
add("C07", "text", "Structs with classical leaves at two depths whose enclosing non-copyable struct the callee replaces; every index-free "
    "program once more with a COMPTIME caller (traced), and lent struct objects whose classical fields hold plain Python values.")
add("C11", "text", "Fourth pool: the module's own `len` + its user + a comptime function, a loaded pytket circuit with a symbolic parameter, a user of `angle`.")
add("C13", "text", "Part (b) families added: instantiation type (None, tuples, non-copyable arrays / structs) x the way it reaches a function type "
    "(bare result, beside a comptime parameter, Callable parameter / result, explicit type application inside a generic function, one-sided "
    "Copy / Drop bounds incl. a must-reject duplication); equal-but-distinguishable comptime arguments in one program (0.0 / -0.0, 1 / True / 1.0); "
    "comptime list arguments; a nested function inside a function that is monomorphised twice, for every set / order of requested instances.")
add("C19", "text", "Comprehensions nested in the element of another; arrays of non-copyable aggregates with a classical part (struct, tuple); two "
    "components of one element lent in the same call (refusing at run time is accepted, a lost update is not).")
add("C23", "text", "Fault kinds extended by traces aborted by KeyboardInterrupt (thorough: SystemExit, GeneratorExit) and by NESTED compilations started "
    "from inside a trace (a comptime function of a second module with the same bindings / of the same module); the second module's namespace is observed too.")
add("C26", "text", "Symbol names whose code-point order differs from case-insensitive / natural order; circuits whose units do not form complete "
    "registers (flat mode must work, array mode must reject or be valid).")
add("C28", "text", "Event run-that-fails (the last shot dies after its first entry). Part B: every builder is also compared across two fresh "
    "worlds in which it is the only builder ever observed (observing builds), and histories target the builder created by their first event.")
add("C29", "text", "Part E: 120 programs whose error span comes from the compiler and sits behind / contains 1 or 20 characters of 1-4 UTF-8 bytes "
    "(earlier statement, earlier argument, inside the node; one- and two-line nodes): the markers must stand under the node's own text.")
add("C32", "text", "Keyword arguments on every KIND of callee (comptime / py, builtins with custom checkers, constructors, gates, function values, "
    "the modifiers of `with` items; k=v, several, **{}, **mapping); walrus / conditional expression / and / comparison chain at five depths in "
    "four parts of a comprehension.")
m["notes"] = m["notes"].replace("holds 120+ confirmed", "holds 151 confirmed")
json.dump(m, open(p, "w"), indent=1)
print("ok")
