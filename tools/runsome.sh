#!/bin/bash
# tools/runsome.sh <tier> <ID>...  -- like runall.sh for a list of properties
cd "$(dirname "$0")/.."
tier="$1"; shift
for id in "$@"; do
  s=$(date +%s.%N)
  out=$(bin/check $id --tier $tier 2>&1); rc=$?
  e=$(date +%s.%N)
  printf "%s rc=%d %.0fs  %s\n" $id $rc $(echo "$e - $s" | bc) "$(echo "$out" | grep -c 'KNOWN-FINDING') known, $(echo "$out" | grep -c '^VIOLATION') viol"
  [ $rc -ne 0 ] && echo "$out" | grep -B3 '^VIOLATION' | cut -c1-400 | head -20
done
