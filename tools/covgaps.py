#!/usr/bin/env python3
"""tools/covgaps.py <ID> [--all-functions]   (after tools/covcheck.sh <ID>)

Development aid: intersects the lines a check's workload never executed (/tmp/cov/<ID>.cov) with
the functions NAMED in the property's anchor mechanisms and prints the uncovered source lines per
function.  A seeded change on such a line is invisible to the check, so this is the to-do list for
widening a generator."""
import ast
import json
import re
import sys

import coverage

pid = sys.argv[1]
allf = "--all-functions" in sys.argv
prop = next(json.loads(l) for l in open("/verif/properties.jsonl") if json.loads(l)["id"] == pid)
names = set()
for m in prop["anchors"]["mechanism"]:
    for w in re.findall(r"[A-Za-z_][A-Za-z0-9_]*(?:\.[A-Za-z_][A-Za-z0-9_]*)*", m["name"]):
        for part in w.split("."):
            if "_" in part or (part[:1].isupper() and any(c.islower() for c in part[1:])) or part.startswith("visit"):
                names.add(part)
data = coverage.CoverageData(basename=f"/tmp/cov/{pid}.cov")
data.read()
cov = coverage.Coverage(data_file=f"/tmp/cov/{pid}.cov")
cov.load()
print(f"# {pid}: mechanism identifiers: {sorted(names)}")
for f in prop["anchors"]["files"]:
    path = "/repo/" + f
    try:
        _, stmts, _, missing, _ = cov.analysis2(path)
    except Exception as e:  # noqa: BLE001
        print(f"## {f}: no data ({e})")
        continue
    src = open(path).read().splitlines()
    tree = ast.parse("\n".join(src))
    miss = set(missing)
    funcs = []
    for node in ast.walk(tree):
        if isinstance(node, (ast.FunctionDef, ast.ClassDef)):
            funcs.append((node.lineno, node.end_lineno, node.name, isinstance(node, ast.ClassDef)))
    print(f"## {f}: {len(stmts) - len(missing)}/{len(stmts)} statements executed")
    for lo, hi, name, iscls in sorted(funcs):
        if iscls:
            continue
        owner = [n for l2, h2, n, c in funcs if c and l2 <= lo and hi <= h2]
        if not allf and name not in names and not (set(owner) & names):
            continue
        um = sorted(l for l in miss if lo <= l <= hi)
        if not um:
            continue
        total = sum(1 for l in stmts if lo <= l <= hi)
        print(f"### {'.'.join(owner[:1] + [name])} ({lo}-{hi}): {len(um)}/{total} statements never executed")
        for l in um[:40]:
            print(f"    {l}: {src[l - 1].strip()[:110]}")
