#!/bin/bash
# tools/srctests.sh <source-root> <out-file> [pytest args...]
# Runs the repository's OWN tests (tests/error, tests/integration, tests/diagnostics, type printing)
# against the sources under <source-root> (not the site-packages guppylang the pinned baseline uses),
# with the compat shim and hugr.cli validation in place of the Selene check.  Writes the sorted list of
# failing test ids to <out-file>; used to compare a candidate "fix:" with the tree before it.
root=$1; out=$2; shift 2
here="$(cd "$(dirname "$0")/.." && pwd)"
cd "$root" || exit 2
args=("$@")
[ ${#args[@]} -eq 0 ] && args=(tests/error tests/integration tests/diagnostics tests/test_type_printing.py)
PYTHONPATH="$here/compat:$root/guppylang/src:$root/guppylang-internals/src" PYTHONDONTWRITEBYTECODE=1 \
  /venv/bin/python -m pytest -p vsrcplugin -q -p no:cacheprovider -rfE -n 8 "${args[@]}" > "$out.log" 2>&1
grep -E '^(FAILED|ERROR) ' "$out.log" | sed 's/ - .*//' | sort > "$out"
tail -1 "$out.log"
