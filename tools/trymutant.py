#!/usr/bin/env python3
"""tools/trymutant.py <mutant_dir> [--checks C01,C05 | --all] [--tier quick]

Evaluates one seeded mutant (patch.diff + demo.py + meta.json):
  1. demo.py on the clean /repo sources must exit 0;
  2. the patch is applied to a scratch copy of the sources (never to /repo itself);
     demo.py on the mutated sources must exit non-zero;
  3. the listed checks (default: the mutant's own property) are run with VERIF_REPO
     pointing at the scratch copy; prints rc and VIOLATION / KNOWN-FINDING lines;
  4. the scratch copy is removed.
Prints a one-line JSON summary at the end.
"""
import json
import os
import shutil
import subprocess
import sys
import tempfile
import time

ROOT = os.path.dirname(os.path.dirname(os.path.abspath(__file__)))


def run_demo(demo, srcroot):
    env = dict(os.environ)
    env["PYTHONPATH"] = f"{ROOT}/compat:{srcroot}/guppylang/src:{srcroot}/guppylang-internals/src"
    env["PYTHONDONTWRITEBYTECODE"] = "1"
    env["WT"] = srcroot
    p = subprocess.run(["/venv/bin/python", demo], env=env, capture_output=True, text=True, timeout=600)
    return p.returncode, (p.stdout + p.stderr)[-600:]


def main():
    mdir = os.path.abspath(sys.argv[1])
    args = sys.argv[2:]
    meta = json.load(open(os.path.join(mdir, "meta.json")))
    checks = [meta["property"]]
    tier = "quick"
    if "--all" in args:
        man = json.load(open(os.path.join(ROOT, "MANIFEST.json")))
        checks = [c["property_id"] for c in man["checks"]]
    if "--checks" in args:
        checks = args[args.index("--checks") + 1].split(",")
    if "--tier" in args:
        tier = args[args.index("--tier") + 1]
    out = {"mutant": mdir, "property": meta["property"], "checks": {}}
    rc, txt = run_demo(os.path.join(mdir, "demo.py"), "/repo")
    out["demo_clean_rc"] = rc
    scratch = tempfile.mkdtemp(prefix="mrepo_", dir="/tmp")
    try:
        for d in ("guppylang", "guppylang-internals"):
            shutil.copytree(os.path.join("/repo", d), os.path.join(scratch, d), ignore=shutil.ignore_patterns("__pycache__", "*.pyc"))
        p = subprocess.run(["patch", "-p1", "-d", scratch, "-i", os.path.join(mdir, "patch.diff"), "--no-backup-if-mismatch"],
                           capture_output=True, text=True)
        if p.returncode != 0:
            out["patch"] = "FAILED: " + (p.stdout + p.stderr)[-400:]
            print(json.dumps(out))
            return 2
        rc, txt = run_demo(os.path.join(mdir, "demo.py"), scratch)
        out["demo_mutated_rc"] = rc
        out["demo_mutated_tail"] = txt[-300:]
        for c in checks:
            env = dict(os.environ)
            env["VERIF_REPO"] = scratch
            env["VERIF_EVIDENCE_DIR"] = os.path.join(scratch, "evidence")
            t0 = time.time()
            p = subprocess.run([os.path.join(ROOT, "bin", "check"), c, "--tier", tier], env=env, capture_output=True, text=True)
            lines = [l for l in p.stdout.splitlines() if l.startswith(("VIOLATION", "HARNESS"))]
            detail = [l.strip()[:260] for l in p.stdout.splitlines() if "key=" in l][:4]
            out["checks"][c] = {"rc": p.returncode, "violations": len(lines), "wall": round(time.time() - t0), "detail": detail}
            print(f"  {c}: rc={p.returncode} violations={len(lines)} {round(time.time() - t0)}s", flush=True)
            for d in detail[:3]:
                print("      " + d, flush=True)
    finally:
        shutil.rmtree(scratch, ignore_errors=True)
    out["detected_by"] = [c for c, r in out["checks"].items() if r["rc"] == 1]
    print(json.dumps({k: v for k, v in out.items() if k != "checks"}))
    return 0


if __name__ == "__main__":
    sys.exit(main())
