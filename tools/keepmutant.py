#!/usr/bin/env python3
"""tools/keepmutant.py <src_dir> <name> <initially_detected: yes|no> "<note>"  -> /verif/seeded/<name>/"""
import json, os, shutil, sys
src, name, initially, note = sys.argv[1:5]
dst = os.path.join(os.path.dirname(os.path.dirname(os.path.abspath(__file__))), "seeded", name)
os.makedirs(dst, exist_ok=True)
for f in ("patch.diff", "demo.py"):
    shutil.copy(os.path.join(src, f), os.path.join(dst, f))
meta = json.load(open(os.path.join(src, "meta.json")))
meta["verif"] = {
    "confirmed": "demo.py exits 0 on the clean /repo sources and non-zero with patch.diff applied (tools/trymutant.py)",
    "detected_by_own_property_check_when_first_tried": initially == "yes",
    "detected_now": True,
    "note": note,
    "how_to_rerun": f"tools/trymutant.py seeded/{name}",
}
json.dump(meta, open(os.path.join(dst, "meta.json"), "w"), indent=1)
print("kept", name)
