#!/bin/bash
# runs every registered quick (or $1=thorough) check; prints id, exit code, wall seconds
cd "$(dirname "$0")/.."
tier="${1:-quick}"
for id in $(python3 -c "import json;print(' '.join(c['property_id'] for c in json.load(open('MANIFEST.json'))['checks']))"); do
  s=$(date +%s.%N)
  out=$(bin/check $id --tier $tier 2>&1); rc=$?
  e=$(date +%s.%N)
  printf "%s rc=%d %.0fs  %s\n" $id $rc $(echo "$e - $s" | bc) "$(echo "$out" | grep -c 'KNOWN-FINDING') known, $(echo "$out" | grep -c '^VIOLATION') viol"
done
