#!/bin/bash
# tools/allmutants.sh [parallelism]  -- re-evaluates every seeded change under /verif/seeded with
# tools/trymutant.py (scratch copy of /repo's sources, never /repo itself) and prints one line each.
# Exit 0 iff every seeded change is detected by its own property's quick check and its demo
# passes on the clean tree.
cd "$(dirname "$0")/.." || exit 2
par=${1:-4}
out=$(mktemp -d /tmp/allmut.XXXXXX)
ls seeded | grep -v "^_" | xargs -P "$par" -I{} sh -c "/venv/bin/python tools/trymutant.py seeded/{} > $out/{}.log 2>&1"
bad=0
for d in seeded/[A-Z]*; do
  n=$(basename "$d")
  line=$(grep '^{"mutant"' "$out/$n.log" | tail -1)
  det=$(printf '%s' "$line" | /venv/bin/python -c 'import json,sys; d=json.loads(sys.stdin.read() or "{}"); print("DETECTED" if d.get("detected_by") and d.get("demo_clean_rc")==0 and d.get("demo_mutated_rc") not in (0,None) else "MISSED", d.get("detected_by"), "demo clean/mutated rc", d.get("demo_clean_rc"), d.get("demo_mutated_rc"))')
  echo "$n $det"
  case "$det" in DETECTED*) ;; *) bad=1 ;; esac
done
rm -rf "$out"
exit $bad
