#!/bin/bash
# tools/covcheck.sh <ID> [tier]  -- development aid (not a registered check): runs one check in a single
# process under line coverage of /repo's sources and lists the lines of the property's ANCHORED files that
# the check's whole workload never executes.  A mutant placed on such a line cannot be seen by the check,
# so the list says where the generators are too narrow.  Output: /tmp/cov/<ID>.txt
id=$1; tier=${2:-quick}
here="$(cd "$(dirname "$0")/.." && pwd)"
mkdir -p /tmp/cov
export VERIF_ROOT="$here" VERIF_REPO=/repo VERIF_WORKERS=1 VERIF_EVIDENCE_DIR=/tmp/cov/ev
export PYTHONPATH="$here/compat:$here:/repo/guppylang/src:/repo/guppylang-internals/src"
export PYTHONDONTWRITEBYTECODE=1 PYTHONHASHSEED=0 CQCL_GUPPYLANG_VERIF=1 COVERAGE_CORE=sysmon
cd "$here" || exit 2
/venv/bin/python -m coverage run --data-file=/tmp/cov/$id.cov --source=/repo/guppylang-internals/src,/repo/guppylang/src \
   -m vlib.main "$id" --tier "$tier" > /tmp/cov/$id.log 2>&1
files=$(/venv/bin/python - "$id" <<'EOF'
import json, sys
for l in open("/verif/properties.jsonl"):
    p = json.loads(l)
    if p["id"] == sys.argv[1]:
        print(",".join("/repo/" + f for f in p["anchors"]["files"]))
EOF
)
/venv/bin/python -m coverage report --data-file=/tmp/cov/$id.cov --include="$files" --show-missing > /tmp/cov/$id.txt 2>&1
tail -3 /tmp/cov/$id.log | cut -c1-200
cat /tmp/cov/$id.txt | cut -c1-400
