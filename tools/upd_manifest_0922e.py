#!/usr/bin/env python3
"""One-off: manifest texts after the fourth round of seeded changes."""
import json, os
ROOT = os.path.dirname(os.path.dirname(os.path.abspath(__file__)))
p = os.path.join(ROOT, "tools", "manifest_src.json")
m = json.load(open(p))
c = m["checks"]


def add(pid, field, text):
    if text not in c[pid][field]:
        c[pid][field] = c[pid][field].rstrip() + " " + text


add("C01", "text", "Feature statements with projections applied to values that are not places (results of generic / plain calls, constructor calls, nested, inside arguments).")
add("C03", "text", "Every form of range() as a loop header (1-3 arguments, ascending / descending, literal / run-time bounds, landing on / jumping over `stop`, empty).")
add("C05", "text", "A deviation cut short by a panic is attributed to the order / multiplicity class the same program shows on inputs that run to the end.")
add("C06", "text", "Families samecall / samecall-places: one place twice in the same call (lent twice, lent and moved) in every block position.")
add("C08", "text", "Families nested2 (two nested definitions of one name reading different outer variables) and shadow-global (a module-level name that the function also assigns).")
add("C12", "text", "Part (c): 2232 calls checked against an expected type whose const parameters are also fixed by @comptime arguments (5 functions x arguments x every ground instance of the result type x 3 checking positions); part (b) also has arguments whose type repeats one undetermined variable and generic function values as arguments.")
add("C21", "text", "The same traced value on both sides of every operator (directly, through an alias, through a tuple); NaN, inf and -0.0 among the float inputs.")
add("C22", "text", "Bodies over one value once more in five signature contexts (unused borrowed / copyable / owned parameters before and after); borrowing through barrier and through an overloaded function.")
m["notes"] = m["notes"].replace("holds 151 confirmed", "holds 161 confirmed")
json.dump(m, open(p, "w"), indent=1)
print("ok")
