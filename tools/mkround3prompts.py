import json, sys, subprocess, os
ids = sys.argv[1:]
for pid in ids:
    t = open(f"/verif/notes/mutshim/prompt_{pid}.txt").read()
    t = t.replace('(mutants "a" and "b")', '(mutants "e" and "f")').replace("For each mutant X in (a, b)", "For each mutant X in (e, f)")
    prev = []
    for x in ("a", "b", "c", "d"):
        mp = f"/verif/seeded/{pid}-{x}/meta.json"
        if not os.path.exists(mp):
            continue
        m = json.load(open(mp))
        prev.append(f"  - ({', '.join(m.get('files_changed', []))}) " + " ".join(m["summary"].split()))
    t += ("\n\nALREADY DONE BY OTHERS - do not repeat these, and choose DIFFERENT code sites and different mechanisms "
          "(other functions, other files anchored above, other kinds of mistakes, other program shapes needed to manifest):\n" + "\n".join(prev) + "\n"
          "\nNever run `git stash` (the stash is shared between worktrees); use `git diff > file`, `git checkout -- .` and `git apply`.\n"
          "If you notice, while working, that the UNMODIFIED sources already violate the property for some input, say so at the end of "
          "your answer with a minimal reproducer - that is valuable - but do not use it for your mutants.\n")
    open(f"/tmp/mutshim/prompt6_{pid}.txt", "w").write(t)
    subprocess.run(["git", "-C", "/repo", "worktree", "add", "--detach", f"/tmp/wt/{pid}", "HEAD", "-q"], check=True)
    print(pid, "ok")
