#!/usr/bin/env python3
"""Regenerates the seeded-change detection table in DESIGN.md (between the markers
<!-- DETECT-BEGIN --> and <!-- DETECT-END -->) from seeded/*/meta.json."""
import json, os, re
ROOT = os.path.dirname(os.path.dirname(os.path.abspath(__file__)))
rows = []
for name in sorted(os.listdir(os.path.join(ROOT, "seeded"))):
    mp = os.path.join(ROOT, "seeded", name, "meta.json")
    if not os.path.exists(mp):
        continue
    m = json.load(open(mp))
    v = m.get("verif", {})
    summ = " ".join(str(m.get("summary", "")).split())
    summ = summ.replace("|", "/")
    if len(summ) > 230:
        summ = summ[:227] + "..."
    first = "yes" if v.get("detected_by_own_property_check_when_first_tried") else "no"
    note = " ".join(str(v.get("note", "")).split()).replace("|", "/")
    also = v.get("also_detected_by")
    by = m["property"] + (", " + ", ".join(also) if also else "")
    rows.append(f"| {name} | {summ} | {by} | {first} | {note} |")
n = len(rows)
first_yes = sum(1 for r in rows if "| yes |" in r)
table = ("| seeded change | what it does | caught by (quick tier) | at first try | what it needed / what was strengthened |\n"
         "|---|---|---|---|---|\n" + "\n".join(rows) +
         f"\n\n{n} seeded changes kept; {first_yes} were caught by the check as it stood when the change arrived, "
         f"{n - first_yes} led to a strengthened check; all {n} are caught now (`tools/allmutants.sh`).\n")
p = os.path.join(ROOT, "DESIGN.md")
s = open(p).read()
s2 = re.sub(r"<!-- DETECT-BEGIN -->.*<!-- DETECT-END -->", lambda _m: "<!-- DETECT-BEGIN -->\n" + table + "<!-- DETECT-END -->", s, flags=re.S)
if s2 == s and "<!-- DETECT-BEGIN -->" not in s:
    raise SystemExit("markers missing in DESIGN.md")
open(p, "w").write(s2)
print(n, "rows")
