#!/usr/bin/env python3
"""Regenerates /verif/MANIFEST.json from tools/manifest_src.json (claimed checks) +
properties.jsonl (everything unclaimed goes to not_applicable with its reason)."""
import json, os, sys
ROOT = os.path.dirname(os.path.dirname(os.path.abspath(__file__)))
src = json.load(open(os.path.join(ROOT, "tools", "manifest_src.json")))
props = [json.loads(l) for l in open(os.path.join(ROOT, "properties.jsonl"))]
ids = [p["id"] for p in props]
checks = []
for pid in ids:
    c = src["checks"].get(pid)
    if not c:
        continue
    checks.append({
        "property_id": pid,
        "quick_cmd": f"bin/check {pid}",
        "thorough_cmd": f"bin/check {pid} --tier thorough",
        "evidence_file": f"/verif/evidence/{pid}.json",
        "replay_cmd_template": f"bin/check {pid} --replay {{path}}",
        "engine": c.get("engine", "enum"),
        "level_claimed": {"category": c["level"], "text": c["text"], "design_ref": c.get("design_ref", f"DESIGN.md §4 {pid}")},
        "level_note": c["note"],
        "technique": c["technique"],
    })
na = []
for pid in ids:
    if pid not in src["checks"]:
        na.append({"property_id": pid, "reason": src["not_applicable"].get(pid, "check not built yet at this commit (work in progress; see DESIGN.md §11 build order)")})
man = {
    "version": 1,
    "setup_cmd": "bin/setup",
    "hooks": src["hooks"],
    "engines": src["engines"],
    "checks": checks,
    "notes": src["notes"],
    "not_applicable": na,
}
json.dump(man, open(os.path.join(ROOT, "MANIFEST.json"), "w"), indent=1)
try:
    import jsonschema
    jsonschema.validate(man, json.load(open("/root/.vp/MANIFEST.schema.json")))
    print("MANIFEST.json valid;", len(checks), "checks,", len(na), "not_applicable")
except ImportError:
    print("written (jsonschema unavailable)")
