import json, sys, subprocess, os
ids = sys.argv[1:]
for pid in ids:
    t = open(f"/tmp/mutshim/prompt_{pid}.txt").read()
    t = t.replace('(mutants "a" and "b")', '(mutants "c" and "d")').replace("For each mutant X in (a, b)", "For each mutant X in (c, d)")
    prev = []
    for x in ("a", "b"):
        m = json.load(open(f"/verif/seeded/{pid}-{x}/meta.json"))
        prev.append(f"  - ({', '.join(m.get('files_changed', []))}) " + " ".join(m["summary"].split()))
    t += ("\n\nALREADY DONE BY OTHERS - do not repeat these, and choose DIFFERENT code sites and different mechanisms "
          "(other functions, other files anchored above, other kinds of mistakes):\n" + "\n".join(prev) + "\n")
    open(f"/tmp/mutshim/prompt4_{pid}.txt", "w").write(t)
    subprocess.run(["git", "-C", "/repo", "worktree", "add", "--detach", f"/tmp/wt/{pid}", "HEAD", "-q"], check=True)
    print(pid, "ok", "c\" and \"d" in t)
