#!/usr/bin/env python3
"""One-off: refresh manifest_src.json texts after mutant wave 4 and the coverage-guided widening."""
import json, os
ROOT = os.path.dirname(os.path.dirname(os.path.abspath(__file__)))
p = os.path.join(ROOT, "tools", "manifest_src.json")
m = json.load(open(p))
c = m["checks"]


def add(pid, field, text):
    if text not in c[pid][field]:
        c[pid][field] = c[pid][field].rstrip() + " " + text


add("C01", "text", "The nat-generic / comptime-argument families contain an atom that loads a builtin as a function VALUE in the middle of the generic body.")
add("C02", "text", "All mutants of a worker are loaded under ONE module / file name (edit-and-rerun of a file in one session), and every numbered "
    "snippet line of a rendered diagnostic must equal that line of the current source; 58 ill-formed unpacking statements (every split of names "
    "around the star, heterogeneous starred section, arity mismatches, nested stars) are inserted at every position.")
add("C03", "text", "Atoms with several same-typed struct fields / tuple elements live across a branch or loop and first used in different orders per "
    "path; pass, annotated assignment, starred tuple with a right part, range unpacking, tuple-returning and void calls. A compiled program still "
    "running after 100x CPython's step count is a violation, not a harness error (also C05, C07, C19, C32).")
add("C05", "text", "Calls whose CALLEE expression has an effect (function-returning leaves), method calls on an effectful receiver, struct construction, "
    "comprehensions, constant conditions; one context reports array-valued (int / bool / float), bool, float and nat results between other effects.")
add("C07", "text", "Calls with two and three borrowed parameters of one type over every ordered combination of argument kinds (7 place shapes, 3 kinds of "
    "temporaries); every call MECHANISM that lends: function values, functions passed on, function tensors, methods with borrowed self, generic callee, "
    "barrier, state_result.")
add("C11", "text", "A third phase: a caller of a definition whose SIGNATURE fails to parse, a compile aborted by KeyboardInterrupt after side-effecting "
    "operations were emitted, and a function with side-effecting operations compiled afterwards.")
add("C13", "text", "Families T13 (a generic function loads a struct constructor / builtin gate as a VALUE before / after / around the use of its own nat, "
    "float, bool const or comptime parameter) and T14 (a dependent const parameter `x: T` forwarded through two instantiation steps).")
add("C15", "text", "Variants generic ONLY in their result type next to monomorphic ones, in three positions where the expected type fixes the parameter.")
add("C19", "text", "2- and 3-level nested arrays with lend / write / aug-assign through a cursor-valued (impure) index, rows lent twice at once; "
    "mem_swap and a user-generic swap on two elements and on element + local; range and starred-tuple unpacking into arrays.")
add("C32", "text", "Cardinality x position: 1-3 defaults (k of n, evaluated observably at definition time), keyword-only defaults, 1-3 decorators, "
    "0-2 positional + 1-3 keyword arguments, surplus keywords, every non-empty subset of `as` clauses over every ordered selection of 1-3 modifier "
    "items, chained assignment with 3 targets, several del / global names, two except handlers, two generators / conditions in a comprehension.")
add("C33", "text", "Layer P: every gated feature construct in every syntactic position (192 programs: expression statement, assignment, annotated "
    "assignment, return, call argument, unpacking / iteration, branches, loops, nested function, dead code, tuple element, conditional expression, "
    "walrus), under flag on / off / off-again-after-exceptional-exit.")
m["notes"] = (m.get("notes", "").split(" Seeded changes:")[0] +
              " Seeded changes: /verif/seeded holds 86 confirmed property-breaking changes made by sub-agents that saw only the property text; "
              "tools/allmutants.sh re-evaluates all of them; DESIGN.md 12.5 lists which check catches which and what had to be strengthened. "
              "tools/covcheck.sh + tools/covgaps.py list the lines of a property's anchored functions that a check's workload never executes "
              "(development aid used to widen the generators).")
json.dump(m, open(p, "w"), indent=1)
print("ok")
