"""pytest plugin (-p vsrcplugin) for tools/srctests.sh: loads the compat shim in every (xdist) process
and validates compiled HUGRs with hugr.cli instead of the Selene compiler's check."""
import vcompat  # noqa: F401
import hugr.cli
import selene_hugr_qis_compiler

selene_hugr_qis_compiler.check_hugr = lambda b: hugr.cli.validate(b)
