"""Experimental compat shim: lets /repo's guppylang 0.21.6 sources run against hugr 0.18 / tket_exts 0.14."""
import functools, json, pkgutil, copy
import tket_exts
from hugr import ext, tys as ht, val as _hv
from hugr.hugr import base as _hb
from semver import Version

OB_JSON = {"t":"Opaque","extension":"tket.bool","extension_version":"0.2.0","id":"bool","args":[],"bound":"C"}
Q = {"t":"Q"}
def _opjson(extname, name, ins, outs):
    return {"extension":extname,"name":name,"description":name,"signature":{"params":[],"body":{"input":ins,"output":outs}},"binary":False}

@functools.cache
def _bool_ext():
    e = ext.Extension("tket.bool", Version(0,2,0))
    td = e.add_type_def(ext.TypeDef(name="bool", description="An opaque bool type", params=[], bound=ext.ExplicitBound(ht.TypeBound.Copyable)))
    OB = ht.ExtType(td)
    def op(name, ins, outs):
        e.add_op_def(ext.OpDef(name=name, description=name, signature=ext.OpDefSig(ht.FunctionType(ins, outs))))
    op("read", [OB],[ht.Bool]); op("make_opaque",[ht.Bool],[OB])
    for n in ["eq","and","or","xor"]:
        op(n,[OB,OB],[OB])
    op("not",[OB],[OB])
    return e
tket_exts.bool = _bool_ext

@functools.cache
def _legacy_quantum():
    d = json.loads(pkgutil.get_data("tket_exts","data/tket/quantum.json").decode())
    d["operations"]["MeasureFree"]["signature"]["body"]["output"] = [copy.deepcopy(OB_JSON)]
    d["operations"] = {k:v for k,v in d["operations"].items() if "tket.measurement" not in json.dumps(v)}
    return ext.Extension.from_json(json.dumps(d))
tket_exts.quantum = _legacy_quantum

@functools.cache
def _legacy_qsystem():
    d = json.loads(pkgutil.get_data("tket_exts","data/tket/qsystem.json").decode())
    d["operations"] = {k:v for k,v in d["operations"].items() if "tket.measurement" not in json.dumps(v)}
    d["operations"]["Measure"] = _opjson("tket.qsystem","Measure",[Q],[copy.deepcopy(OB_JSON)])
    d["operations"]["MeasureReset"] = _opjson("tket.qsystem","MeasureReset",[Q],[Q,copy.deepcopy(OB_JSON)])
    return ext.Extension.from_json(json.dumps(d))
tket_exts.qsystem = _legacy_qsystem

_orig_init = _hv.Extension.__init__
def _init(self, name, typ, val, extensions=None):
    _orig_init(self, name, typ, val)
_hv.Extension.__init__ = _init

_orig_add = _hb.Hugr._add_node
def _add_node(self, *a, **k):
    n = _orig_add(self, *a, **k)
    object.__setattr__(n, "metadata", self[n].metadata)
    return n
_hb.Hugr._add_node = _add_node

def finish():
    pass
