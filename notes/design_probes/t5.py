import linecache, types, sys, traceback
from guppylang import guppy
from guppylang_internals.span import Span, Loc
a = Span(Loc("f",1,2), Loc("f",1,4)); b = Span(Loc("f",1,0), Loc("f",1,10))
print("a in b (expect True):", a in b, " b in a (expect False):", b in a, " b in b:", b in b)
print("and touching:", Span(Loc("f",1,0),Loc("f",1,3)) & Span(Loc("f",1,3),Loc("f",1,5)))

from guppylang_internals.tys.ty import ExistentialTypeVar, TupleType, unify, NumericType
A = ExistentialTypeVar.fresh("a", True, True); B = ExistentialTypeVar.fresh("b", True, True)
s = unify(B, A, {}); print("s1", s)
s2 = unify(A, TupleType([B]), s); print("cyclic?", s2)
print("1-tuple prints:", str(TupleType([NumericType(NumericType.Kind.Int)])))

def load(src, name):
    fn = f"<verif-{name}>"
    linecache.cache[fn] = (len(src), None, src.splitlines(True), fn)
    mod = types.ModuleType(name); mod.__file__ = fn; sys.modules[name]=mod
    exec(compile(src, fn, 'exec'), mod.__dict__)
    return mod
HDR = '''
from guppylang import guppy
from guppylang.std.builtins import result, array, owned
from guppylang.std.quantum import qubit, h, measure, cx, discard, project_z
'''
m = load(HDR + '''
@guppy
def main() -> None:
    i = 0
    while i < 2:
        i += 1
    else:
        result("else", 1)
    result("done", i)
''', "we")
try:
    m.main.check(); print("while-else ACCEPTED (else dropped?)")
except Exception as e: print("while-else rejected:", type(e).__name__)

m = load(HDR + '''
@guppy(unitary=True)
def u(q: qubit) -> None:
    if project_z(q):
        h(q)
''', "un")
try:
    m.u.check(); print("unitary w/ project_z in cond ACCEPTED")
except Exception as e: print("unitary cond rejected:", type(e).__name__, str(e)[:200])
m = load(HDR + '''
@guppy(unitary=True)
def u2(q: qubit) -> None:
    b = project_z(q)
''', "un2")
try:
    m.u2.check(); print("unitary w/ project_z stmt ACCEPTED")
except Exception as e: print("unitary stmt rejected:", type(e).__name__)
