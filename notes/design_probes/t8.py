import linecache, types, sys, re, hashlib
import guppylang
from guppylang_internals import experimental as ex
def load(src, name):
    fn = f"<verif-{name}>"
    linecache.cache[fn] = (len(src), None, src.splitlines(True), fn)
    mod = types.ModuleType(name); mod.__file__ = fn; sys.modules[name]=mod
    exec(compile(src, fn, 'exec'), mod.__dict__)
    return mod
def canon(pkg):
    s = pkg.to_str()
    names = {}
    def r(m):
        k = m.group(0)
        if k not in names: names[k] = f"<{m.group(1)}#{len(names)}>"
        return names[k]
    s = re.sub(r"(%tmp|DefId\(id=|\.)(\d+)", r, s)
    return hashlib.sha1(s.encode()).hexdigest()[:12]
m = load('''
from guppylang import guppy
from guppylang.std.builtins import result, array, owned, comptime
from guppylang.std.quantum import qubit, h, measure, discard
len = 5
@guppy
def plain(x: int) -> int:
    return x + 1 if x > 0 else x
@guppy
def clos(x: int) -> int:
    def rec(n: int) -> int:
        if n == 0:
            return 0
        return rec(n - 1) + 1
    return rec(x)
@guppy
def bad(x: int) -> bool:
    return x + 1.5
@guppy.comptime
def ct(x: int) -> int:
    y = int(x) + 2
    return y
@guppy.comptime
def ctbad(q: qubit @owned) -> None:
    raise ValueError("boom")
''', "p8")
print("fresh plain", canon(m.plain.compile_function()), "clos", canon(m.clos.compile_function()))
print("again plain", canon(m.plain.compile_function()), "clos", canon(m.clos.compile_function()), canon(m.clos.compile_function()))
try: m.bad.check()
except Exception as e: print("bad:", type(e).__name__)
print("after bad plain", canon(m.plain.compile_function()))
g0 = dict(m.__dict__)
print("ct", canon(m.ct.compile_function()))
print("globals same after ct:", {k for k in set(g0)|set(m.__dict__) if g0.get(k, None) is not m.__dict__.get(k, None)})
try: m.ctbad.compile_function()
except Exception as e: print("ctbad:", type(e).__name__, str(e)[:80])
print("globals same after ctbad:", {k for k in set(g0)|set(m.__dict__) if g0.get(k, None) is not m.__dict__.get(k, None)})
from guppylang_internals.tracing.state import tracing_active
print("tracing_active after failed comptime:", tracing_active())
print("after ctbad plain", canon(m.plain.compile_function()), "ct", canon(m.ct.compile_function()))
# C33
print("flag0", ex.EXPERIMENTAL_FEATURES_ENABLED)
with ex.enable_experimental_features():
    with ex.disable_experimental_features():
        print(" inner", ex.EXPERIMENTAL_FEATURES_ENABLED)
    print(" mid", ex.EXPERIMENTAL_FEATURES_ENABLED)
print("end", ex.EXPERIMENTAL_FEATURES_ENABLED)
cm = ex.enable_experimental_features()
print("after ctor only:", ex.EXPERIMENTAL_FEATURES_ENABLED)
