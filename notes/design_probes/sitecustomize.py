import vcompat
