import time, linecache, types, sys
from guppylang import guppy
import hugr.cli
SRC = '''
from guppylang import guppy
from guppylang.std.builtins import result, array, owned
from guppylang.std.quantum import qubit, h, measure, cx, discard

@guppy
def foo{i}(x: int, y: int) -> int:
    z = 0
    while x > 0:
        if x % 2 == 0:
            z += y
        else:
            z -= 1
        x -= 1
    return z

@guppy
def main{i}() -> None:
    q = qubit()
    h(q)
    b = measure(q)
    result('a', foo{i}(5, 3))
    result('b', b)
'''
tc=tk=tv=0
N=30
for i in range(N):
    src = SRC.format(i=i)
    fn = f"<verif-{i}>"
    linecache.cache[fn] = (len(src), None, src.splitlines(True), fn)
    mod = types.ModuleType(f"vm{i}"); mod.__file__ = fn
    sys.modules[mod.__name__] = mod
    exec(compile(src, fn, 'exec'), mod.__dict__)
    m = mod.__dict__[f"main{i}"]
    t=time.time(); m.check(); tc+=time.time()-t
    t=time.time(); p=m.compile(); b=p.to_bytes(); tk+=time.time()-t
    t=time.time(); hugr.cli.validate(b); tv+=time.time()-t
print(f"check {tc/N*1000:.1f}ms compile {tk/N*1000:.1f}ms validate {tv/N*1000:.1f}ms")
