import time
from guppylang import guppy
from guppylang.std.builtins import result
import guppylang; print(guppylang.__version__)
@guppy
def main() -> None:
    x = 7
    y = -3
    result("a", x // y)
    result("b", x % y)
    result("c", (x < 3) or (y < 0))
t=time.time()
r = main.emulator(n_qubits=1).with_seed(1).run()
print(list(r.results[0].entries), time.time()-t)
t=time.time()
r = main.emulator(n_qubits=1).with_seed(1).run()
print(time.time()-t)
