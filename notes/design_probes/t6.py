import linecache, types, sys
from guppylang import guppy
from hugr import ops
def load(src, name):
    fn = f"<verif-{name}>"
    linecache.cache[fn] = (len(src), None, src.splitlines(True), fn)
    mod = types.ModuleType(name); mod.__file__ = fn; sys.modules[name]=mod
    exec(compile(src, fn, 'exec'), mod.__dict__)
    return mod
m = load('''
from guppylang import guppy
from guppylang.std.builtins import result, array, owned
@guppy
def f(x: int) -> int:
    result("f", x)
    return x + 1
@guppy
def main(a: int) -> int:
    xs = array(1, 2, 3)
    if 0 < f(a) < f(3):
        xs[0] = 7
    return xs[0] + a
''', "p6")
pkg = m.main.compile_function()
h = pkg.modules[0]
print(type(h), h.entrypoint, len(list(h)))
for n in h:
    d = h[n]
    op = d.op
    extra = ""
    if isinstance(op, ops.ExtOp):
        od = op.op_def()
        extra = f" EXT {od.qualified_name()} args={op.args}"
    elif isinstance(op, ops.Const):
        extra = f" CONST {op.val!r}"[:120]
    elif isinstance(op, ops.Call):
        extra = f" CALL"
    kids = h.children(n)
    print(n.idx, type(op).__name__, "parent", d.parent.idx if d.parent else None, extra, "nkids", len(kids))
# links
print("--- links of main's DFG sample")
for n in list(h)[:60]:
    for i in range(h.num_out_ports(n)):
        p = n.out(i)
        lk = list(h.linked_ports(p))
        if lk: print("  ", p, "->", lk, h.port_kind(p).__class__.__name__)
    # order edges
    lk = list(h.linked_ports(n.out(-1)))
    if lk: print("   ORDER", n, "->", lk)
