import vcompat, sys
import selene_hugr_qis_compiler, hugr.cli
selene_hugr_qis_compiler.check_hugr = lambda b: hugr.cli.validate(b)
import pytest
sys.exit(pytest.main(sys.argv[1:]))
