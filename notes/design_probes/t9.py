import linecache, types, sys, time
def load(src, name):
    fn = f"<verif-{name}>"
    linecache.cache[fn] = (len(src), None, src.splitlines(True), fn)
    mod = types.ModuleType(name); mod.__file__ = fn; sys.modules[name]=mod
    exec(compile(src, fn, 'exec'), mod.__dict__)
    return mod
m = load('''
from guppylang import guppy
from guppylang.std.builtins import result, array, owned
from guppylang.std.quantum import qubit, h, cx, rz, t, discard, x
from guppylang.std.angles import angle
from guppylang.std.debug import state_result
@guppy
def main() -> None:
    a = qubit()
    b = qubit()
    h(a)
    t(a)
    cx(a, b)
    rz(b, angle(0.25))
    state_result("s", a, b)
    discard(a)
    discard(b)
''', "p9")
t0=time.time()
res = m.main.emulator(n_qubits=2).statevector_sim().with_seed(1).run()
print("time", time.time()-t0)
print(type(res))
try:
    ps = res.partial_state_dicts()
    for d in ps:
        for k,v in d.items():
            print(k, v.as_single_state() if hasattr(v,'as_single_state') else v)
except Exception as e:
    import traceback; traceback.print_exc()
