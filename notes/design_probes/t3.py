from guppylang import guppy
from guppylang.std.builtins import result, array, owned
from guppylang.std.quantum import qubit, h, measure, cx, discard
from selene_hugr_qis_compiler import check_hugr
import hugr.cli

@guppy
def foo(x: int, y: int) -> int:
    z = 0
    while x > 0:
        if x % 2 == 0:
            z += y
        else:
            z -= 1
        x -= 1
    return z

@guppy
def m1() -> None:
    result('a', foo(5, 3))

@guppy
def m2() -> None:
    q = qubit()
    h(q)
    discard(q)

@guppy
def m3() -> None:
    q = qubit()
    h(q)
    result('b', measure(q))

for m in (m1, m2, m3):
    b = m.compile().to_bytes()
    for name, f in (("selene", check_hugr), ("hugrcli", hugr.cli.validate)):
        try:
            f(b); print(m.id.name if hasattr(m,'id') else m, name, "OK")
        except BaseException as e:
            print(m, name, "FAIL", str(e).split("Stack backtrace")[0][:600])
    try:
        r = m.emulator(n_qubits=2).with_seed(1).run()
        print("emu", list(r.results[0].entries))
    except BaseException as e:
        print("emu FAIL", type(e), str(e).split("Stack backtrace")[0][:600])
