import vcompat
# UNMODIFIED sources: a nested function that captures a variable whose type is a type
# parameter of the enclosing generic function is accepted by the checker, but lowering
# defines the closure's FuncDefn WITHOUT type parameters although its signature mentions
# the type variable -> no valid HUGR can be produced.
import hugr.cli
from guppylang import guppy
from guppylang_internals.experimental import enable_experimental_features

enable_experimental_features()  # capturing closures are experimental
T = guppy.type_var("T", copyable=True, droppable=True)


@guppy
def gen_capture(x: T, k: int) -> int:
    def bar(y: int) -> int:
        z = x  # captured, of type T
        return y

    return bar(k)


gen_capture.check()  # accepted
try:
    pkg = gen_capture.compile_function()
    hugr.cli.validate(pkg.to_bytes())
except BaseException as e:  # noqa: BLE001
    import traceback

    traceback.print_exc()
    raise AssertionError(f"C01 violated on unmodified sources: {type(e).__name__}: {e}") from e
print("ok")
