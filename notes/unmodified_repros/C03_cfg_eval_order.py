import vcompat  # noqa: F401
# UNMODIFIED sources, CFG level (Selene cannot run programs with bools, see README):
# (1) the middle operand of a chained comparison is evaluated twice when the first link
#     holds (`lo < g(x) < hi` calls g twice; Python calls it once);
# (2) operands to the LEFT of a conditional expression / short-circuit expression are
#     evaluated AFTER it (`g(1) + (g(2) if c else g(3))` calls g(2)/g(3) before g(1)).
# If g emits a result(), the emitted sequence differs from Python's.
import ast, textwrap
from guppylang_internals.cfg.builder import CFGBuilder
from guppylang_internals.ast_util import annotate_location

def dump(src):
    src = textwrap.dedent(src)
    fn = ast.parse(src).body[0]
    annotate_location(fn, src, '<demo>', 0)
    cfg = CFGBuilder().build(fn.body, False, None)
    for bb in cfg.bbs:
        stmts = [ast.unparse(s) for s in bb.statements]
        pred = ast.unparse(bb.branch_pred) if bb.branch_pred is not None else None
        print(f"  BB{bb.idx}: {stmts} branch_on={pred} -> {[s.idx for s in bb.successors]}")
    return cfg

print("chained comparison:")
cfg = dump("""
def f(lo: int, x: int, hi: int) -> bool:
    return lo < g(x) < hi
""")
calls = sum(ast.unparse(n).count("g(x)") for bb in cfg.bbs if bb.reachable
            for n in ([*bb.statements] + ([bb.branch_pred] if bb.branch_pred is not None else [])))
print("  occurrences of g(x) in reachable blocks:", calls)

print("conditional expression to the right of a call:")
cfg2 = dump("""
def f(c: bool) -> int:
    return g(1) + (g(2) if c else g(3))
""")
assert calls == 1, "g(x) is evaluated twice on the path where lo < g(x) holds"
