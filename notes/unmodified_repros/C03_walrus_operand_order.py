import vcompat  # noqa: F401
# UNMODIFIED sources: an operand that is read BEFORE a later walrus re-binds the same name
# sees the later value, because ExprBuilder.visit_NamedExpr hoists every `x := e` into an
# assignment statement in front of the whole expression and leaves the bare name `x`.
# Python: (x := a) + (x := b) == a + b ; x + (x := b) uses the old x.
from guppylang import guppy
from guppylang.std.builtins import result


@guppy
def main() -> None:
    a = 1
    b = 20
    s = (x := a) + (x := b)
    result("s", s)
    y = 300
    t = y + (y := 4000)
    result("t", t)


def main_python():
    out = []
    a = 1
    b = 20
    s = (x := a) + (x := b)
    out.append(("s", s))
    y = 300
    t = y + (y := 4000)
    out.append(("t", t))
    return out


res = main.emulator(0).coinflip_sim().with_seed(1).run()
got = [(k, v) for k, v in res[0]]
exp = main_python()
print("guppy :", got)
print("python:", exp)
assert got == exp, f"C03 violated on unmodified sources: emulator {got} != Python {exp}"
