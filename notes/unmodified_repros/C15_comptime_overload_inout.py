import vcompat
# UNMODIFIED sources: in a @guppy.comptime function a call to an overloaded function with a
# borrowed (inout) argument does NOT behave like the direct call to the selected variant:
# tracing/function.py::trace_call skips the inout write-back when `len(func.ty.inputs) == 0`,
# and an OverloadedFunctionDef always carries the dummy signature `() -> None`, so the borrowed
# qubit is considered consumed after the overloaded call.
from guppylang import guppy, qubit
import hugr.cli


@guppy.declare
def v1(q: qubit) -> None: ...


@guppy.declare
def v2(q: qubit, r: qubit) -> None: ...


@guppy.overload(v1, v2)
def comb(): ...


@guppy.comptime
def direct(q: qubit) -> None:
    v1(q)
    v1(q)


@guppy.comptime
def over(q: qubit) -> None:
    comb(q)  # resolves to v1, which only borrows q
    comb(q)


hugr.cli.validate(direct.compile_function().to_bytes())  # fine
try:
    hugr.cli.validate(over.compile_function().to_bytes())
except Exception as e:  # GuppyComptimeError: Value with non-copyable type `qubit` was already used
    raise AssertionError(
        f"overloaded call differs from the direct call to the selected variant: {type(e).__name__}: {e}"
    )
print("ok")
