import vcompat
"""UNMODIFIED sources: bodies accepted as @guppy functions but rejected as @guppy.comptime."""
from guppylang import guppy
from guppylang.std.builtins import nat


def attempt(label, mk):
    try:
        mk().compile_function()
        print(f"{label}: accepted")
        return True
    except BaseException as e:  # noqa: BLE001
        print(f"{label}: REJECTED {type(e).__name__}: {str(e).splitlines()[0][:150]}")
        return False


@guppy
def g(n: nat) -> nat:
    return n


def lit_reg():
    @guppy
    def f(x: nat) -> nat:
        return g(3)
    return f


def lit_ct():
    @guppy.comptime
    def f(x: nat) -> nat:
        return g(3)
    return f


def divmod_reg():
    @guppy
    def f(x: int) -> tuple[int, int]:
        return divmod(7, x)
    return f


def divmod_ct():
    @guppy.comptime
    def f(x: int) -> tuple[int, int]:
        return divmod(7, x)
    return f


def round_reg():
    @guppy
    def f(x: float) -> float:
        return round(x)
    return f


def round_ct():
    @guppy.comptime
    def f(x: float) -> float:
        return round(x)
    return f


res = [
    (attempt("g(3) with g(n: nat), regular ", lit_reg), attempt("g(3) with g(n: nat), comptime", lit_ct)),
    (attempt("divmod(7, x), regular ", divmod_reg), attempt("divmod(7, x), comptime", divmod_ct)),
    (attempt("round(x), regular ", round_reg), attempt("round(x), comptime", round_ct)),
]
bad = [i for i, (r, c) in enumerate(res) if r != c]
assert not bad, f"comptime and regular disagree on acceptance for cases {bad}"
