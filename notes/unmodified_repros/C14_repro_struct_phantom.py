import vcompat
"""UNMODIFIED sources, property C14.

(1) `Tagged[qubit]` (phantom parameter) is classified copyable=False, droppable=False
    (type-argument rule), but its HUGR type Tuple(int) is a Copyable HUGR type:
    "HUGR type copyable exactly when the Guppy type is copyable" does not hold.
(2) The linearity checker tracks struct values field by field, so a variable of type
    `Tagged[qubit]` can nevertheless be implicitly copied and implicitly dropped; only
    when the struct is wrapped (e.g. `Option[Tagged[qubit]]`) is the classification of
    the struct type itself enforced.
Exits 1 and prints the observations when they are present.
"""
from hugr import tys as ht
from guppylang import guppy
from guppylang.std.builtins import owned
from guppylang.std.quantum import qubit
from guppylang_internals.engine import ENGINE
from guppylang_internals.error import GuppyError
from guppylang_internals.tys.common import QuantifiedToHugrContext


@guppy.struct
class Tagged[T]:
    x: int


@guppy.declare
def make() -> Tagged[qubit]: ...


@guppy.declare
def eat[U](u: U @ owned) -> None: ...


@guppy
def copy_and_drop() -> None:
    t = make()
    eat(t)
    eat(t)  # implicit copy of a non-copyable type
    u = make()  # implicit drop of a non-droppable type


found = []
ty = ENGINE.get_checked(make.id).ty.output
hugr_ty = ty.to_hugr(QuantifiedToHugrContext([]))
if (not ty.copyable) != (hugr_ty.type_bound() == ht.TypeBound.Linear):
    found.append(
        f"{ty}: copyable={ty.copyable} droppable={ty.droppable} hugr_bound={ty.hugr_bound}, "
        f"but HUGR type {hugr_ty} has bound {hugr_ty.type_bound()}"
    )
try:
    copy_and_drop.check()
    found.append(
        f"a variable of type {ty} (copyable={ty.copyable}, droppable={ty.droppable}) "
        "was implicitly copied and dropped without an error"
    )
except GuppyError:
    pass
for f in found:
    print("FINDING:", f)
raise SystemExit(1 if found else 0)
