import vcompat  # noqa: F401
# Observations on the UNMODIFIED worktree sources (HEAD of /tmp/wt/C12); not used for mutant e.
from collections.abc import Callable

from guppylang.decorator import guppy

S = guppy.type_var("S")
R = guppy.type_var("R")
X = guppy.type_var("X")
T = guppy.type_var("T")


# (1) FALSE ACCEPT: check_call's fallback (taken because R cannot be inferred from the
# arguments) unifies the expected type with the result type, which yields the triangular
# solution {?S: tuple[?X], ?X: ?R, ?R: int}.  type_check_args applies it with ONE
# substitute() pass, so the argument is checked against tuple[?X]; the argument re-solves
# ?X := bool and `subst |= s` overrides the earlier ?X := ?R (= int).
# Required: S = tuple[X], R = X, R = int  =>  X = int, argument must be tuple[int];
# the argument (True,) is tuple[bool], so NO instantiation exists - yet it type-checks.
@guppy.declare
def f(x: S) -> tuple[S, R, R]: ...


@guppy.declare
def g(a: tuple[tuple[X], X, int]) -> X: ...


@guppy
def main1() -> bool:
    return g(f((True,)))


try:
    main1.check()
    print("(1) g(f((True,))) ACCEPTED although no instantiation exists  <-- violation")
except Exception as e:  # noqa: BLE001
    print("(1) rejected:", type(e).__name__)


# (2) FALSE REJECT / internal crash: a generic function passed where the expected type
# still contains the caller's variable.  check_type_against returns {?T: ?S} (the callee's
# own, already discarded variable) for the caller's ?T, so the caller's solution is never
# closed: AssertionError in synthesize_call although T := int, S := int fits.
@guppy.declare
def apply(f: Callable[[T], int], x: T) -> int: ...


@guppy.declare
def ident(x: S) -> S: ...


@guppy
def main2() -> int:
    return apply(ident, 3)


try:
    main2.check()
    print("(2) apply(ident, 3) accepted")
except AssertionError:
    print("(2) apply(ident, 3): internal AssertionError in synthesize_call "
          "although T := int, S := int is an instantiation  <-- violation")
except Exception as e:  # noqa: BLE001
    print("(2) rejected:", type(e).__name__)
