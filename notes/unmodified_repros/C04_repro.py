import vcompat  # noqa: F401
"""Violations of C04 observed on the UNMODIFIED sources (not used for the mutant)."""
import hugr.cli
from guppylang import guppy
from guppylang.std.builtins import nat, result


@guppy
def shr(a: int, b: int) -> int:
    return a >> b


@guppy
def fdiv(a: int, b: int) -> int:
    return a // b


@guppy
def mod(a: int, b: int) -> int:
    return a % b


@guppy
def nat_divmod(a: nat, b: nat) -> tuple[nat, nat]:
    return divmod(a, b)


@guppy.comptime
def entry() -> None:
    r1: int = shr(-17, 3)
    result("-17 >> 3", r1)
    r2: int = fdiv(7, -2)
    result("7 // -2", r2)
    r3: int = mod(7, -2)
    result("7 % -2", r3)


res = dict(entry.emulator(0).coinflip_sim().with_seed(1).run()[0])
expected = {"-17 >> 3": -17 >> 3, "7 // -2": 7 // -2, "7 % -2": 7 % -2}
bad = {k: (res[k], expected[k]) for k in expected if res[k] != expected[k]}
print("emulator (got, python):", bad)

try:
    hugr.cli.validate(nat_divmod.compile_function().to_bytes())
    nat_divmod_ok = True
except Exception as e:  # noqa: BLE001
    nat_divmod_ok = False
    print("divmod(nat, nat) compiles to an invalid HUGR:", next((l.strip() for l in str(e).splitlines() if "idivmod_u" in l), str(e))[:220])

assert not bad and nat_divmod_ok, "unmodified sources violate C04"
