import vcompat
"""Inputs for which the UNMODIFIED 0.21.6 sources already deviate from C08.
Prints one line per case; exits 0 always (it documents, it does not assert)."""
from guppylang import guppy
from guppylang.std.builtins import comptime, nat
from guppylang_internals.error import GuppyError
from guppylang_internals.experimental import enable_experimental_features

enable_experimental_features()


# (1) Python evaluates the left operand first: `x` is read before `x := 2` binds it
#     (UnboundLocalError in Python). Accepted, because the walrus is hoisted into an
#     assignment statement *before* the statement that contains it.
@guppy
def walrus_order() -> int:
    y = x + (x := 2)
    return y


@guppy
def glob() -> int:
    return 1


# (2) A name that is assigned in the function is a local everywhere in it. Reading it in
#     the ENTRY block before the assignment is accepted and silently bound to the global
#     of the same name (the same read in a non-entry block is rejected, see
#     tests/error/errors_on_usage/shadow_global3.py).
@guppy
def shadow_in_entry_block() -> int:
    y = glob()
    glob = 2
    return y + glob


# (3) Valid program: `x` is assigned on every path. The dead code of the nested function
#     reads it; the enclosing block's liveness ignores dead code of nested functions, the
#     nested function's own check does not -> spurious "`x` is not defined".
@guppy
def nested_dead_read(c: bool) -> int:
    x = 1
    if c:

        def g() -> int:
            return 1
            y = x

        return g()
    return 0


# (4) Valid program: `n` is a parameter, hence bound on every path; re-binding it on one
#     path makes the later read "might be undefined" because comptime parameters are not
#     among the variables assigned before the entry block.
@guppy
def comptime_param_rebound(n: nat @ comptime, c: bool) -> nat:
    if c:
        n = n + nat(1)
    return n


@guppy
def comptime_param_main() -> nat:
    return comptime_param_rebound(comptime(3), True)


def outcome(defn) -> str:
    try:
        defn.check()
    except GuppyError as e:
        return f"rejected: {type(e.error).__name__}: {e.error.rendered_span_label}"
    return "accepted"


print("(1) walrus_order           expected rejected, got:", outcome(walrus_order))
print("(2) shadow_in_entry_block  expected rejected, got:", outcome(shadow_in_entry_block))
print("(3) nested_dead_read       expected accepted, got:", outcome(nested_dead_read))
print("(4) comptime_param_rebound expected accepted, got:", outcome(comptime_param_main))
