import vcompat

"""C22 violations that the UNMODIFIED 0.21.6 sources already show (not used for mutant e).

Every comptime function below leaks a qubit (1-3) or mutates an owned argument in place
(4). The property demands a Guppy error; instead a HUGR is produced (for 1-3 an invalid
one with an unconnected qubit port). The script exits 1 and lists the cases that were
accepted.
"""
import sys

import hugr.cli
from guppylang import qubit
from guppylang.decorator import guppy
from guppylang.std.builtins import array, barrier, owned
from guppylang.std.quantum import cx


# 1. `barrier` is a custom function without a declared signature (func.ty.inputs == []),
#    so trace_call marks q as used but never re-registers the borrowed value.
@guppy.comptime
def leak_after_barrier() -> None:
    q = qubit()
    barrier(q)


# 2. Same for calls through an overloaded function (its dummy type has no inputs).
@guppy.declare
def f1(q: qubit) -> None: ...
@guppy.declare
def f2(q: qubit, r: qubit) -> None: ...
@guppy.overload(f1, f2)
def f(): ...

@guppy.comptime
def leak_after_overload() -> None:
    q = qubit()
    f(q)


# 3. trace_call marks the arguments as used BEFORE the call is type checked; if the
#    check fails and the user swallows the exception, q counts as used although no
#    operation consumed it.
@guppy.comptime
def leak_after_failed_call(q: qubit @ owned) -> None:
    try:
        cx(q, 1)
    except Exception:
        pass


# 4. frozenlist does not override __init__, which re-initialises the list in place.
@guppy.comptime
def mutate_owned_via_init(xs: array[int, 2] @ owned) -> None:
    xs.__init__([])


accepted = []
for fn in (leak_after_barrier, leak_after_overload, leak_after_failed_call,
           mutate_owned_via_init):
    name = fn.wrapped.name
    try:
        pkg = fn.compile_function()
    except Exception as err:  # noqa: BLE001
        print(f"{name}: rejected ({type(err).__name__})")
        continue
    try:
        hugr.cli.validate(pkg.to_bytes())
        valid = "valid HUGR"
    except Exception as err:  # noqa: BLE001
        valid = "INVALID HUGR: " + next(l.strip() for l in str(err).splitlines() if "unconnected port" in l)
    print(f"{name}: ACCEPTED, {valid}")
    accepted.append(name)

assert not accepted, f"C22 violated on unmodified sources by: {accepted}"
