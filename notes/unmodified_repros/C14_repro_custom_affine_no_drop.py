import vcompat
"""UNMODIFIED sources, property C14 (drop insertion).

An affine (copyable=False, droppable=True) custom type that is backed by a linear HUGR
type other than an array gets no explicit drop: requires_drop() only knows the two array
extension types (AFFINE_EXTENSION_TYS), so the unused value stays a dangling linear port.
Exits 1 when no drop op was inserted / the HUGR does not validate.
"""
import hugr.cli
from hugr import ops, tys as ht
from guppylang import guppy
from guppylang.std.builtins import owned
from guppylang_internals.decorator import custom_type


@custom_type(ht.Qubit, copyable=False, droppable=True)
class Token:
    """Affine type lowered to a linear, non-array HUGR type."""


@guppy
def main(t: Token @ owned) -> None:
    pass


pkg = main.compile_function()
h = pkg.modules[0]
n = sum(
    1 for node in h
    if isinstance(h[node].op, ops.ExtOp) and h[node].op.op_def().name == "drop"
)
print("drop ops:", n)
ok = n == 1
try:
    hugr.cli.validate(pkg.to_bytes())
except BaseException as e:  # noqa: BLE001
    print("HUGR invalid:", str(e).splitlines()[0][:200])
    ok = False
raise SystemExit(0 if ok else 1)
